//! Small utilities: deterministic PRNG, panic guard, watchdog, byte-string JSON encodings.
//! Nothing in here knows what a correct result looks like.

use serde_json::{json, Value};
use std::panic::{catch_unwind, AssertUnwindSafe};
use std::sync::atomic::{AtomicU64, Ordering};
use std::time::{SystemTime, UNIX_EPOCH};

/// SplitMix64: tiny deterministic generator (no external crate needed).
pub struct Rng(pub u64);

impl Rng {
    pub fn new(seed: u64) -> Self {
        Rng(seed.wrapping_mul(0x9E37_79B9_7F4A_7C15) ^ 0xD1B5_4A32_D192_ED03)
    }
    pub fn next(&mut self) -> u64 {
        self.0 = self.0.wrapping_add(0x9E37_79B9_7F4A_7C15);
        let mut z = self.0;
        z = (z ^ (z >> 30)).wrapping_mul(0xBF58_476D_1CE4_E5B9);
        z = (z ^ (z >> 27)).wrapping_mul(0x94D0_49BB_1331_11EB);
        z ^ (z >> 31)
    }
    /// uniform in 0..n (n > 0)
    pub fn below(&mut self, n: u64) -> u64 {
        self.next() % n
    }
    pub fn range(&mut self, lo: u64, hi: u64) -> u64 {
        lo + self.below(hi - lo + 1)
    }
    pub fn chance(&mut self, num: u64, den: u64) -> bool {
        self.below(den) < num
    }
    pub fn pick<'a, T>(&mut self, xs: &'a [T]) -> &'a T {
        &xs[self.below(xs.len() as u64) as usize]
    }
    pub fn bytes(&mut self, n: usize) -> Vec<u8> {
        (0..n).map(|_| self.next() as u8).collect()
    }
}

static CALL_START_MS: AtomicU64 = AtomicU64::new(0);
static GUARD_DEPTH: AtomicU64 = AtomicU64::new(0);
static CALL_SEQ: AtomicU64 = AtomicU64::new(1);
static EXTRA_BUDGET_MS: AtomicU64 = AtomicU64::new(0);

/// Extra time the watchdog grants to the following calls (inputs of several GiB take seconds to
/// scan even once; that is bounded work, not a hang). 0 resets it.
pub fn set_extra_budget_ms(ms: u64) {
    EXTRA_BUDGET_MS.store(ms, Ordering::SeqCst);
}

/// Panics inside a guarded call are data; panics of the harness itself must be loud.
pub fn install_panic_hook() {
    let default = std::panic::take_hook();
    std::panic::set_hook(Box::new(move |info| {
        if GUARD_DEPTH.load(Ordering::SeqCst) == 0 {
            default(info);
        }
    }));
}
static INFLIGHT: std::sync::Mutex<String> = std::sync::Mutex::new(String::new());
static HANG_FILE: std::sync::Mutex<String> = std::sync::Mutex::new(String::new());

/// Records a description of the session about to be executed (reported if a call hangs).
pub fn set_inflight(desc: String) {
    *INFLIGHT.lock().unwrap() = desc;
}

pub fn set_hang_file(path: String) {
    *HANG_FILE.lock().unwrap() = path;
}

fn now_ms() -> u64 {
    SystemTime::now()
        .duration_since(UNIX_EPOCH)
        .map(|d| d.as_millis() as u64)
        .unwrap_or(0)
}

/// CPU time (user + system) this process has used, in milliseconds (Linux: /proc/self/stat,
/// 100 clock ticks per second).
fn cpu_ms() -> u64 {
    let stat = std::fs::read_to_string("/proc/self/stat").unwrap_or_default();
    // the fields after the parenthesised command name
    let rest = stat.rsplit(')').next().unwrap_or("");
    let f: Vec<&str> = rest.split_whitespace().collect();
    // rest starts at field 3 (state): utime is field 14, stime field 15
    let ticks = |i: usize| f.get(i).and_then(|x| x.parse::<u64>().ok()).unwrap_or(0);
    (ticks(11) + ticks(12)) * 10
}

/// Starts a watchdog thread: if one guarded call has burnt more than `limit_s` seconds of CPU
/// time (a loop that does not end; measured in CPU time so that a loaded machine does not
/// matter), or has not returned after 30 times that in wall-clock time, the process exits with
/// status 3 (the orchestrator reports the in-flight session as a hang).
pub fn start_watchdog(limit_s: u64) {
    std::thread::spawn(move || {
        let mut seen_seq = 0u64;
        let mut cpu0 = 0u64;
        let mut wall0 = 0u64;
        loop {
            std::thread::sleep(std::time::Duration::from_millis(250));
            let seq = CALL_SEQ.load(Ordering::SeqCst);
            let started = CALL_START_MS.load(Ordering::SeqCst);
            if started == 0 {
                seen_seq = 0;
                continue;
            }
            if seq != seen_seq {
                seen_seq = seq;
                cpu0 = cpu_ms();
                wall0 = now_ms();
                continue;
            }
            let cpu = cpu_ms().saturating_sub(cpu0);
            let wall = now_ms().saturating_sub(wall0);
            let extra = EXTRA_BUDGET_MS.load(Ordering::SeqCst);
            if cpu > limit_s * 1000 + extra || wall > 30 * limit_s * 1000 + 4 * extra {
                eprintln!("WATCHDOG: a call used {} ms of CPU time / {} ms of wall-clock time", cpu, wall);
                let desc = INFLIGHT.lock().map(|g| g.clone()).unwrap_or_default();
                let path = HANG_FILE.lock().map(|g| g.clone()).unwrap_or_default();
                if !path.is_empty() {
                    let _ = std::fs::write(&path, &desc);
                }
                std::process::exit(3);
            }
        }
    });
}

/// Runs `f`, turning a panic into `Err(message)`.
pub fn guard<T>(f: impl FnOnce() -> T) -> Result<T, String> {
    CALL_SEQ.fetch_add(1, Ordering::SeqCst);
    CALL_START_MS.store(now_ms().max(1), Ordering::SeqCst);
    let depth = GUARD_DEPTH.fetch_add(1, Ordering::SeqCst);
    let r = catch_unwind(AssertUnwindSafe(f));
    GUARD_DEPTH.store(depth, Ordering::SeqCst);
    if depth == 0 {
        CALL_START_MS.store(0, Ordering::SeqCst);
    }
    r.map_err(|e| {
        if let Some(s) = e.downcast_ref::<&str>() {
            s.to_string()
        } else if let Some(s) = e.downcast_ref::<String>() {
            s.clone()
        } else {
            "panic".to_string()
        }
    })
}

pub fn panic_value(msg: &str) -> Value {
    json!({"k": "panic", "msg": msg})
}

/// Flat encoding of a byte string: JSON array of integers.
pub fn flat(bytes: &[u8]) -> Value {
    Value::Array(bytes.iter().map(|b| json!(*b)).collect())
}

/// Run-length encoding (canonical: maximal runs): JSON array of [byte, count] pairs.
pub fn rl(bytes: &[u8]) -> Value {
    let mut out: Vec<Value> = Vec::new();
    let mut i = 0;
    while i < bytes.len() {
        let b = bytes[i];
        let mut j = i + 1;
        while j < bytes.len() && bytes[j] == b {
            j += 1;
        }
        out.push(json!([b, j - i]));
        i = j;
    }
    Value::Array(out)
}

pub fn unflat(v: &Value) -> Vec<u8> {
    v.as_array()
        .expect("flat byte array")
        .iter()
        .map(|x| x.as_u64().expect("byte") as u8)
        .collect()
}

pub fn unrl(v: &Value) -> Vec<u8> {
    let mut out = Vec::new();
    for pair in v.as_array().expect("rl array") {
        let p = pair.as_array().expect("rl pair");
        let b = p[0].as_u64().expect("byte") as u8;
        let n = p[1].as_u64().expect("count") as usize;
        out.extend(std::iter::repeat(b).take(n));
    }
    out
}

/// Well-known IPv4 addresses (one per special range and the edges of each) for systematic grids.
pub const KNOWN_V4: [[u8; 4]; 24] = [
    [0, 0, 0, 0], [0, 0, 0, 1], [10, 0, 0, 1], [10, 255, 255, 255], [100, 64, 0, 1], [127, 0, 0, 1], [127, 255, 255, 255], [128, 0, 0, 0],
    [169, 254, 0, 1], [169, 254, 169, 254], [172, 16, 0, 1], [172, 31, 255, 255], [192, 0, 2, 1], [192, 168, 0, 1], [192, 168, 255, 255], [198, 18, 0, 1],
    [198, 51, 100, 7], [203, 0, 113, 9], [224, 0, 0, 1], [239, 255, 255, 255], [240, 0, 0, 1], [255, 255, 255, 254], [255, 255, 255, 255], [8, 8, 8, 8],
];

/// Well-known IPv6 addresses (groups).
pub const KNOWN_V6: [[u16; 8]; 18] = [
    [0, 0, 0, 0, 0, 0, 0, 0], [0, 0, 0, 0, 0, 0, 0, 1], [0, 0, 0, 0, 0, 0xffff, 0x7f00, 1], [0, 0, 0, 0, 0, 0xffff, 0xc000, 0x0201], [0, 0, 0, 0, 0, 0, 0xc000, 0x0201],
    [0x64, 0xff9b, 0, 0, 0, 0, 0xc000, 0x0221], [0x64, 0xff9b, 1, 0, 0, 0, 0xc000, 0x0221], [0x2001, 0xdb8, 0, 0, 0, 0, 0, 1], [0x2001, 0, 0, 0, 0, 0, 0, 1], [0x2002, 0xc000, 0x0201, 0, 0, 0, 0, 1],
    [0xfe80, 0, 0, 0, 0, 0, 0, 1], [0xfe80, 4, 0, 0, 0, 0, 0, 1], [0xfec0, 0, 0, 0, 0, 0, 0, 1], [0xfc00, 0, 0, 0, 0, 0, 0, 1], [0xfd12, 0x3456, 0x789a, 1, 0, 0, 0, 1],
    [0xff02, 0, 0, 0, 0, 0, 0, 1], [0xff0e, 0, 0, 0, 0, 0, 0, 0xfb], [0xffff, 0xffff, 0xffff, 0xffff, 0xffff, 0xffff, 0xffff, 0xffff],
];

/// Well-known ports.
pub const KNOWN_PORTS: [u16; 14] = [0, 1, 22, 25, 53, 80, 443, 1023, 1024, 8080, 32767, 32768, 49152, 65535];
