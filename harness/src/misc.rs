//! The `format`, `convert` and `iptext` families.

use crate::proj::{v1_addr, v1_bytes, v1_from_str_addresses, v1_from_str_header, v1_str, v2_addr};
use crate::stream::{random_groups, random_octets, random_port};
use crate::util::{flat, guard, panic_value, rl, unflat, unrl, Rng};
use ppp::{v1, v2};
use serde_json::{json, Value};
use std::io::Write;
use std::net::{Ipv4Addr, Ipv6Addr, SocketAddr, SocketAddrV4, SocketAddrV6};

// ---- format: v1 Addresses -> text -> parse back -----------------------------------------------

pub fn v1_addr_from(v: &Value) -> v1::Addresses {
    match v["proto"].as_str().unwrap() {
        "UNKNOWN" => v1::Addresses::Unknown,
        "TCP4" => {
            let sa = unflat(&v["sa"]);
            let da = unflat(&v["da"]);
            v1::Addresses::Tcp4(v1::IPv4 {
                source_address: Ipv4Addr::new(sa[0], sa[1], sa[2], sa[3]),
                destination_address: Ipv4Addr::new(da[0], da[1], da[2], da[3]),
                source_port: v["sp"].as_u64().unwrap() as u16,
                destination_port: v["dp"].as_u64().unwrap() as u16,
            })
        }
        _ => {
            let g = |x: &Value| -> [u16; 8] {
                let v: Vec<u16> = x.as_array().unwrap().iter().map(|y| y.as_u64().unwrap() as u16).collect();
                v.try_into().unwrap()
            };
            v1::Addresses::Tcp6(v1::IPv6 {
                source_address: Ipv6Addr::from(g(&v["sa"])),
                destination_address: Ipv6Addr::from(g(&v["da"])),
                source_port: v["sp"].as_u64().unwrap() as u16,
                destination_port: v["dp"].as_u64().unwrap() as u16,
            })
        }
    }
}

pub fn run_format(sid: &str, a: &v1::Addresses, out: &mut dyn Write) -> usize {
    let text = guard(|| a.to_string());
    let ev = match text {
        Ok(t) => {
            let back = json!({
                "v1b": v1_bytes(t.as_bytes(), false),
                "v1s": v1_str(&t, false),
                "v1fh": v1_from_str_header(&t, false),
                "v1fa": v1_from_str_addresses(&t),
            });
            json!({"fam": "format", "sid": sid, "op": "FmtV1", "a": v1_addr(a), "text": {"k": "ok", "v": flat(t.as_bytes())}, "back": back})
        }
        Err(p) => json!({"fam": "format", "sid": sid, "op": "FmtV1", "a": v1_addr(a), "text": panic_value(&p)}),
    };
    writeln!(out, "{}", ev).unwrap();
    1
}

pub fn run_format_scenario(v: &Value, idx: usize, out: &mut dyn Write) -> usize {
    let sid = v["sid"].as_str().map(|s| s.to_string()).unwrap_or(format!("scn-{}", idx));
    run_format(&sid, &v1_addr_from(&v["a"]), out)
}

pub fn generate_format(name: &str, count: usize, rng: &mut Rng, out: &mut dyn Write) -> usize {
    let mut n = 0;
    match name {
        // every zero-run shape: groups from {0, 1, 0xffff}; count caps how many of the 6561 are used
        "fmtshapes" => {
            let vals = [0u16, 1, 0xffff];
            let total = 6561usize;
            let step = if count >= total { 1 } else { (total / count.max(1)).max(1) };
            let offset = rng.below(step as u64) as usize;
            let other = [0x2001u16, 0xdb8, 0, 0, 0, 0, 0, 0x99];
            let mut i = offset;
            while i < total {
                let mut g = [0u16; 8];
                let mut x = i;
                for k in 0..8 {
                    g[k] = vals[x % 3];
                    x /= 3;
                }
                let (s, d) = if i % 2 == 0 { (g, other) } else { (other, g) };
                let a = v1::Addresses::new_tcp6(Ipv6Addr::from(s), Ipv6Addr::from(d), (i % 65536) as u16, 65535 - (i % 7) as u16);
                n += run_format(&format!("fmtshapes-{}", i), &a, out);
                i += step;
            }
        }
        // well-known addresses and ports in both roles
        "fmtknown" => {
            use crate::util::{KNOWN_PORTS, KNOWN_V4, KNOWN_V6};
            for i in 0..count {
                let (sp, dp) = (KNOWN_PORTS[i % 14], KNOWN_PORTS[(i / 14 + 3) % 14]);
                let a = if i % 2 == 0 {
                    v1::Addresses::new_tcp4(KNOWN_V4[i / 2 % 24], KNOWN_V4[(i / 2 * 7 + 5) % 24], sp, dp)
                } else {
                    v1::Addresses::new_tcp6(Ipv6Addr::from(KNOWN_V6[i / 2 % 18]), Ipv6Addr::from(KNOWN_V6[(i / 2 * 5 + 7) % 18]), sp, dp)
                };
                n += run_format(&format!("fmtknown-{}", i), &a, out);
            }
        }
        "fmtrand" => {
            n += run_format("fmtrand-unknown", &v1::Addresses::Unknown, out);
            for i in 0..count {
                let a = if rng.chance(1, 3) {
                    v1::Addresses::new_tcp4(random_octets(rng), random_octets(rng), random_port(rng), random_port(rng))
                } else {
                    let mut s = random_groups(rng);
                    let d = random_groups(rng);
                    if rng.chance(1, 8) { s = [0xffff; 8]; }
                    v1::Addresses::new_tcp6(Ipv6Addr::from(s), Ipv6Addr::from(d), random_port(rng), random_port(rng))
                };
                n += run_format(&format!("fmtrand-{}", i), &a, out);
            }
        }
        other => panic!("unknown format generator {}", other),
    }
    n
}

// ---- convert: constructors and conversions ----------------------------------------------------

fn sock_json(s: &SocketAddr) -> Value {
    match s {
        SocketAddr::V4(a) => json!({"fam": 4, "ip": flat(&a.ip().octets()), "port": a.port(), "flow": 0, "scope": 0}),
        SocketAddr::V6(a) => json!({"fam": 6, "ip": flat(&a.ip().octets()), "port": a.port(), "flow": a.flowinfo() & 0x7fffffff, "scope": a.scope_id() & 0x7fffffff}),
    }
}

fn sock_from(v: &Value) -> SocketAddr {
    let ip = unflat(&v["ip"]);
    let port = v["port"].as_u64().unwrap() as u16;
    if v["fam"] == 4 {
        SocketAddr::V4(SocketAddrV4::new(Ipv4Addr::new(ip[0], ip[1], ip[2], ip[3]), port))
    } else {
        let o: [u8; 16] = ip.try_into().unwrap();
        SocketAddr::V6(SocketAddrV6::new(Ipv6Addr::from(o), port, v["flow"].as_u64().unwrap() as u32, v["scope"].as_u64().unwrap() as u32))
    }
}

fn ipv4_fields(a: &v1::IPv4) -> Value {
    json!({"sa": flat(&a.source_address.octets()), "da": flat(&a.destination_address.octets()), "sp": a.source_port, "dp": a.destination_port})
}

fn ipv6_fields(a: &v1::IPv6) -> Value {
    json!({"sa": flat(&a.source_address.octets()), "da": flat(&a.destination_address.octets()), "sp": a.source_port, "dp": a.destination_port})
}

/// v1 addresses with IPv6 as 16 octets (so both versions are comparable byte-wise).
fn v1_addr_octets(a: &v1::Addresses) -> Value {
    match a {
        v1::Addresses::Unknown => json!({"k": "Unknown"}),
        v1::Addresses::Tcp4(x) => { let mut v = ipv4_fields(x); v["k"] = json!("Tcp4"); v }
        v1::Addresses::Tcp6(x) => { let mut v = ipv6_fields(x); v["k"] = json!("Tcp6"); v }
    }
}

pub fn run_convert(v: &Value, idx: usize, out: &mut dyn Write) -> usize {
    let sid = v["sid"].as_str().map(|s| s.to_string()).unwrap_or(format!("cv-{}", idx));
    let op = v["op"].as_str().unwrap();
    let a = &v["args"];
    let port = |k: &str| a[k].as_u64().unwrap() as u16;
    let o4 = |k: &str| -> [u8; 4] { unflat(&a[k]).try_into().unwrap() };
    let o16 = |k: &str| -> [u8; 16] { unflat(&a[k]).try_into().unwrap() };
    let r = guard(|| match op {
        "IPv4New" => ipv4_fields(&v1::IPv4::new(o4("sa"), o4("da"), port("sp"), port("dp"))),
        "IPv6New" => ipv6_fields(&v1::IPv6::new(o16("sa"), o16("da"), port("sp"), port("dp"))),
        "V1NewTcp4" => v1_addr_octets(&v1::Addresses::new_tcp4(o4("sa"), o4("da"), port("sp"), port("dp"))),
        "V1NewTcp6" => v1_addr_octets(&v1::Addresses::new_tcp6(o16("sa"), o16("da"), port("sp"), port("dp"))),
        "V1FromIPv4" => v1_addr_octets(&v1::Addresses::from(v1::IPv4::new(o4("sa"), o4("da"), port("sp"), port("dp")))),
        "V1FromIPv6" => v1_addr_octets(&v1::Addresses::from(v1::IPv6::new(o16("sa"), o16("da"), port("sp"), port("dp")))),
        "V2FromIPv4" => v2_addr(&v2::Addresses::from(v2::IPv4::new(o4("sa"), o4("da"), port("sp"), port("dp")))),
        "V2FromIPv6" => v2_addr(&v2::Addresses::from(v2::IPv6::new(o16("sa"), o16("da"), port("sp"), port("dp")))),
        "UnixNew" => {
            let s: [u8; 108] = unrl(&a["src"]).try_into().unwrap();
            let d: [u8; 108] = unrl(&a["dst"]).try_into().unwrap();
            let u = v2::Unix::new(s, d);
            json!({"src": rl(&u.source), "dst": rl(&u.destination), "as_addr": v2_addr(&v2::Addresses::from(u))})
        }
        "FromPair" => {
            let s = sock_from(&a["s"]);
            let d = sock_from(&a["d"]);
            let one = v1::Addresses::from((s, d));
            let two = v2::Addresses::from((s, d));
            json!({"v1": v1_addr_octets(&one), "v2": v2_addr(&two), "v2fam": crate::proj::family_name(two.address_family())})
        }
        "TlvNew" => {
            let val = unrl(&a["v"]);
            let code = a["t"].as_u64().unwrap() as u8;
            let t = v2::TypeLengthValue::new(code, val.as_slice());
            let f = v2::TypeLengthValue::from((code, val.as_slice()));
            json!({"t": t.kind, "v": rl(t.value.as_ref()), "ft": f.kind, "fv": rl(f.value.as_ref()), "eq": t == f})
        }
        "V1HeaderNew" => {
            let text = String::from_utf8(unflat(&a["text"])).unwrap();
            let addr = v1_addr_from(&a["a"]);
            let h = v1::Header::new(text.as_str(), addr);
            json!({"hdr": flat(h.header.as_bytes()), "a": v1_addr(&h.addresses)})
        }
        other => panic!("unknown convert op {}", other),
    })
    .map(|v| json!({"k": "ok", "v": v}))
    .unwrap_or_else(|p| panic_value(&p));
    writeln!(out, "{}", json!({"fam": "convert", "sid": sid, "op": op, "args": a, "r": r})).unwrap();
    1
}

pub fn generate_convert(name: &str, count: usize, rng: &mut Rng, out: &mut dyn Write) -> usize {
    let mut n = 0;
    match name {
        "cvrand" => {
            for i in 0..count {
                let mut b = rng.bytes(40);
                // special shapes now and then: IPv4-mapped, unspecified, loopback, all-ones
                for off in [0usize, 16] {
                    match rng.below(8) {
                        0 => { for k in 0..10 { b[off + k] = 0; } b[off + 10] = 0xff; b[off + 11] = 0xff; }
                        1 => { for k in 0..16 { b[off + k] = 0; } }
                        2 => { for k in 0..15 { b[off + k] = 0; } b[off + 15] = 1; }
                        3 => { for k in 0..16 { b[off + k] = 0xff; } }
                        _ => {}
                    }
                }
                let (mut sp, mut dp) = (rng.next() as u16, rng.next() as u16);
                if rng.chance(1, 3) {
                    // well-known addresses and ports (one per special range) in both roles
                    use crate::util::{KNOWN_PORTS, KNOWN_V4, KNOWN_V6};
                    if rng.chance(1, 2) {
                        let (x, y) = (KNOWN_V4[rng.below(24) as usize], KNOWN_V4[rng.below(24) as usize]);
                        b[0..4].copy_from_slice(&x);
                        b[4..8].copy_from_slice(&y);
                        b[16..20].copy_from_slice(&y);
                    } else {
                        let (x, y) = (KNOWN_V6[rng.below(18) as usize], KNOWN_V6[rng.below(18) as usize]);
                        for k in 0..8 { b[2 * k..2 * k + 2].copy_from_slice(&x[k].to_be_bytes()); b[16 + 2 * k..18 + 2 * k].copy_from_slice(&y[k].to_be_bytes()); }
                    }
                    sp = KNOWN_PORTS[rng.below(14) as usize];
                    dp = KNOWN_PORTS[rng.below(14) as usize];
                }
                let args4 = json!({"sa": flat(&b[0..4]), "da": flat(&b[4..8]), "sp": sp, "dp": dp});
                let args6 = json!({"sa": flat(&b[0..16]), "da": flat(&b[16..32]), "sp": sp, "dp": dp});
                let ev = match i % 11 {
                    0 => json!({"op": "IPv4New", "args": args4}),
                    1 => json!({"op": "IPv6New", "args": args6}),
                    2 => json!({"op": "V1NewTcp4", "args": args4}),
                    3 => json!({"op": "V1NewTcp6", "args": args6}),
                    4 => json!({"op": "V1FromIPv4", "args": args4}),
                    5 => json!({"op": "V1FromIPv6", "args": args6}),
                    6 => json!({"op": "V2FromIPv4", "args": args4}),
                    7 => json!({"op": "V2FromIPv6", "args": args6}),
                    8 => {
                        let mut s = vec![0u8; 108];
                        let mut d = vec![0u8; 108];
                        for k in 0..(rng.below(108) as usize) { s[k] = b[k % 40]; }
                        for k in 0..(rng.below(108) as usize) { d[k] = b[(k + 7) % 40] ^ 0x5a; }
                        json!({"op": "UnixNew", "args": {"src": rl(&s), "dst": rl(&d)}})
                    }
                    9 => if i % 22 == 9 {
                        json!({"op": "V1HeaderNew", "args": {"text": flat(b"PROXY UNKNOWN\r\n"), "a": {"proto": "TCP4", "sa": flat(&b[0..4]), "da": flat(&b[4..8]), "sp": sp, "dp": dp}}})
                    } else {
                        json!({"op": "TlvNew", "args": {"t": b[0], "v": rl(&b[1..(1 + (b[1] % 30) as usize)])}})
                    },
                    _ => {
                        let mk = |fam6: bool, off: usize, port: u16, rng: &mut Rng| -> Value {
                            if fam6 {
                                let (mut flow, mut scope) = match rng.below(4) { 0 => (0, 0), 1 => (0, rng.next() as u32 & 0x7fffffff), 2 => (rng.next() as u32 & 0xfffff, 0), _ => (rng.next() as u32 & 0x7fffffff, rng.next() as u32 & 0x7fffffff) };
                                let mut ip = b[off..off + 16].to_vec();
                                // scoped / well-known classes, and RELATIONS between the fields of one
                                // socket address: a group equal to the scope id (KAME-style embedding),
                                // to the port, to the flow label
                                match rng.below(8) {
                                    0 => { ip[0] = 0xfe; ip[1] = 0x80; scope = 1 + rng.below(9) as u32; ip[2] = 0; ip[3] = scope as u8; }
                                    1 => { ip[0] = 0xfe; ip[1] = 0x80; ip[2] = 0; ip[3] = 0; scope = 1 + rng.below(9) as u32; }
                                    2 => { ip[0] = 0xff; ip[1] = 0x02; scope = u16::from_be_bytes([ip[2], ip[3]]) as u32; }
                                    3 => { let k = 2 * rng.below(8) as usize; scope = u16::from_be_bytes([ip[k], ip[k + 1]]) as u32; }
                                    4 => { let k = 2 * rng.below(8) as usize; ip[k] = (port >> 8) as u8; ip[k + 1] = port as u8; }
                                    5 => { flow = u16::from_be_bytes([ip[14], ip[15]]) as u32; }
                                    _ => {}
                                }
                                json!({"fam": 6, "ip": flat(&ip), "port": port, "flow": flow, "scope": scope})
                            } else {
                                json!({"fam": 4, "ip": flat(&b[off..off + 4]), "port": port, "flow": 0, "scope": 0})
                            }
                        };
                        let (f1, f2) = (rng.chance(1, 2), rng.chance(1, 2));
                        json!({"op": "FromPair", "args": {"s": mk(f1, 0, sp, rng), "d": mk(f2, 16, dp, rng)}})
                    }
                };
                let mut ev = ev;
                ev["sid"] = json!(format!("cvrand-{}", i));
                n += run_convert(&ev, i, out);
            }
            let _ = sock_json;
        }
        other => panic!("unknown convert generator {}", other),
    }
    n
}

// ---- iptext: std's address text parser (oracle validation only; not ppp code) ------------------

pub fn run_iptext(v: &Value, idx: usize, out: &mut dyn Write) -> usize {
    let sid = v["sid"].as_str().map(|s| s.to_string()).unwrap_or(format!("ip-{}", idx));
    let bytes = unflat(&v["t"]);
    let text = String::from_utf8_lossy(&bytes).to_string();
    let r4 = match text.parse::<Ipv4Addr>() {
        Ok(a) => json!({"k": "ok", "v": flat(&a.octets())}),
        Err(_) => json!({"k": "err"}),
    };
    let r6 = match text.parse::<Ipv6Addr>() {
        Ok(a) => json!({"k": "ok", "v": a.segments().to_vec()}),
        Err(_) => json!({"k": "err"}),
    };
    let port = match text.parse::<u16>() {
        Ok(p) => json!({"k": "ok", "v": p}),
        Err(_) => json!({"k": "err"}),
    };
    writeln!(out, "{}", json!({"fam": "iptext", "sid": sid, "op": "IpText", "t": flat(&bytes), "r4": r4, "r6": r6, "port": port})).unwrap();
    1
}

pub fn generate_iptext(name: &str, count: usize, rng: &mut Rng, out: &mut dyn Write) -> usize {
    let mut n = 0;
    match name {
        "iprand" => {
            for i in 0..count {
                let text: String = match rng.below(4) {
                    0 => crate::stream::render_ipv6(random_groups(rng), rng),
                    1 => { let o = random_octets(rng); format!("{}.{}.{}.{}", o[0], o[1], o[2], o[3]) }
                    2 => { let len = rng.below(12) as usize; (0..len).map(|_| *rng.pick(&['0', '1', 'f', ':', '.', ':', '2', 'A'])).collect() }
                    _ => {
                        let mut s = crate::stream::render_ipv6(random_groups(rng), rng);
                        if !s.is_empty() {
                            let p = rng.below(s.len() as u64) as usize;
                            match rng.below(3) {
                                0 => { s.remove(p); }
                                1 => s.insert(p, *rng.pick(&[':', '0', '.', 'g'])),
                                _ => { s.truncate(p); }
                            }
                        }
                        s
                    }
                };
                n += run_iptext(&json!({"sid": format!("iprand-{}", i), "t": flat(text.as_bytes())}), i, out);
            }
        }
        other => panic!("unknown iptext generator {}", other),
    }
    n
}
