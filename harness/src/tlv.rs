//! The `tlv` family: a cursor over an arbitrary byte slice, one event per `next()`.

use crate::proj::tlv_item;
use crate::util::{guard, panic_value, rl, unrl, Rng};
use ppp::v2::TypeLengthValues;
use serde_json::{json, Value};
use std::io::Write;

pub fn run_section(sid: &str, tag: &Value, section: &[u8], out: &mut dyn Write) -> usize {
    run_section_progs(sid, tag, section, &[], out)
}

/// One operation of a program on a single cursor.
#[derive(Clone, Debug)]
pub enum POp {
    Next,
    /// `nth(n)`; a negative n stands for `usize::MAX`
    Nth(i64),
    /// a consuming adaptor through `by_ref()`: collect / count / last / fold / for_each
    Rest(String),
    /// `step_by(k)` on a fresh cursor, collected (does not touch the session's cursor)
    StepBy(usize),
}

fn pop_json(op: &POp) -> Value {
    match op {
        POp::Next => json!({"op": "next"}),
        POp::Nth(n) => json!({"op": "nth", "n": n}),
        POp::Rest(how) => json!({"op": "rest", "how": how}),
        POp::StepBy(k) => json!({"op": "step_by", "k": k}),
    }
}

fn pop_from(v: &Value) -> POp {
    match v["op"].as_str().unwrap() {
        "next" => POp::Next,
        "nth" => POp::Nth(v["n"].as_i64().unwrap()),
        "rest" => POp::Rest(v["how"].as_str().unwrap().to_string()),
        _ => POp::StepBy(v["k"].as_u64().unwrap() as usize),
    }
}

/// Everything else a caller can ask of a cursor wherever it stands, without consuming it:
/// size_hint, len, is_empty, as_bytes, Debug, Clone, equality with its clone.
fn probe(tlvs: &TypeLengthValues<'_>) -> Value {
    guard(|| {
        let (lo, hi) = tlvs.size_hint();
        let c = tlvs.clone();
        let same = c == *tlvs;
        let dbg = format!("{:?}", tlvs).len();
        json!({"k": "ok", "lo": lo.min(i32::MAX as usize), "hi": hi.map(|x| x.min(i32::MAX as usize) as i64).unwrap_or(-1),
               "len": tlvs.len(), "empty": tlvs.is_empty(), "bytes": tlvs.as_bytes().len().min(i32::MAX as usize), "clone_eq": same, "dbg": dbg > 0})
    })
    .unwrap_or_else(|p| panic_value(&p))
}

fn strip(v: Value) -> Value {
    match v["k"].as_str() {
        Some("ok") => json!({"k": "ok", "t": v["t"], "v": v["v"]}),
        Some("err") => json!({"k": "err", "e": v["e"], "a": v["a"], "b": v["b"]}),
        Some("panic") => v,
        _ => json!({"k": "none"}),
    }
}

/// Runs one program on one fresh cursor: TlvRestart, then one event per operation.
fn run_program(sid: &str, section: &[u8], prog: &[POp], out: &mut dyn Write) -> usize {
    let mut n = 0;
    writeln!(out, "{}", json!({"sid": sid, "op": "TlvRestart"})).unwrap();
    n += 1;
    let limit = section.len() / 3 + 9;
    let mut tlvs = TypeLengthValues::from(section);
    for op in prog {
        let r = guard(|| match op {
            POp::Next => json!({"sid": sid, "op": "TlvNext", "r": tlv_item(tlvs.next())}),
            POp::Nth(k) => {
                let arg = if *k < 0 { usize::MAX } else { *k as usize };
                json!({"sid": sid, "op": "TlvNth", "n": k, "r": strip(tlv_item(tlvs.nth(arg)))})
            }
            POp::Rest(how) => {
                // the adaptor consumes a CLONE of the moved cursor by value (so that an overridden
                // count / last / fold is the one that runs); the cursor itself is then drained
                let c = tlvs.clone();
                let r = match how.as_str() {
                    "count" => json!({"k": "ok", "n": c.count()}),
                    "last" => json!({"k": "ok", "item": strip(tlv_item(c.last()))}),
                    "fold" => json!({"k": "ok", "n": c.fold(0usize, |a, _| a + 1)}),
                    "for_each" => {
                        let mut items = Vec::new();
                        c.for_each(|r| items.push(strip(tlv_item(Some(r)))));
                        json!({"k": "ok", "items": items})
                    }
                    _ => {
                        let items: Vec<Value> = c.collect::<Vec<_>>().into_iter().map(|r| strip(tlv_item(Some(r)))).collect();
                        json!({"k": "ok", "items": items})
                    }
                };
                for _ in 0..limit {
                    if tlvs.next().is_none() {
                        break;
                    }
                }
                json!({"sid": sid, "op": "TlvRest", "how": how, "r": r})
            }
            POp::StepBy(k) => {
                let items: Vec<Value> = TypeLengthValues::from(section).step_by(*k).take(limit).map(|r| strip(tlv_item(Some(r)))).collect();
                json!({"sid": sid, "op": "TlvStepBy", "k": k, "r": {"k": "ok", "items": items}})
            }
        });
        match r {
            Ok(mut v) => {
                v["probe"] = probe(&tlvs);
                writeln!(out, "{}", v).unwrap();
                n += 1;
            }
            Err(p) => {
                let mut v = pop_json(op);
                let name = match op { POp::Next => "TlvNext", POp::Nth(_) => "TlvNth", POp::Rest(_) => "TlvRest", POp::StepBy(_) => "TlvStepBy" };
                v["op"] = json!(name);
                v["sid"] = json!(sid);
                v["r"] = panic_value(&p);
                writeln!(out, "{}", v).unwrap();
                return n + 1;
            }
        }
    }
    n
}

pub fn run_section_progs(sid: &str, tag: &Value, section: &[u8], progs: &[Vec<POp>], out: &mut dyn Write) -> usize {
    let mut n = 0;
    let mut tlvs = TypeLengthValues::from(section);
    let open = guard(|| json!({"k": "ok", "len": tlvs.len(), "empty": tlvs.is_empty(), "bytes_eq": tlvs.as_bytes() == section}))
        .unwrap_or_else(|p| panic_value(&p));
    writeln!(out, "{}", json!({"fam": "tlv", "sid": sid, "op": "TlvOpen", "tag": tag, "sec": rl(section), "open": open})).unwrap();
    n += 1;
    // the same section through the other ways an `Iterator` can be consumed (each on a fresh cursor)
    let derived = guard(|| {
        let strip = |v: Value| -> Value {
            // only what identifies the item
            match v["k"].as_str() {
                Some("ok") => json!({"k": "ok", "t": v["t"], "v": v["v"]}),
                Some("err") => json!({"k": "err", "e": v["e"], "a": v["a"], "b": v["b"]}),
                _ => json!({"k": "none"}),
            }
        };
        let limit = section.len() / 3 + 4;
        let nth: Vec<Value> = (0..limit.min(6)).map(|n| strip(tlv_item(TypeLengthValues::from(section).nth(n)))).collect();
        let skip2: Vec<Value> = TypeLengthValues::from(section).skip(2).take(limit).map(|r| strip(tlv_item(Some(r)))).collect();
        let count = TypeLengthValues::from(section).take(limit + 5).count();
        let last = strip(tlv_item(TypeLengthValues::from(section).take(limit + 5).last()));
        let mut each: Vec<Value> = Vec::new();
        TypeLengthValues::from(section).take(limit + 5).for_each(|r| each.push(strip(tlv_item(Some(r)))));
        let folded = TypeLengthValues::from(section).fold(0usize, |acc, _| if acc > limit + 5 { acc } else { acc + 1 });
        let collected: Vec<Value> = TypeLengthValues::from(section).take(limit + 5).collect::<Vec<_>>().into_iter().map(|r| strip(tlv_item(Some(r)))).collect();
        // indices at the integer maximum must simply run off the end
        let far: Vec<Value> = vec![
            strip(tlv_item(TypeLengthValues::from(section).nth(usize::MAX))),
            strip(tlv_item(TypeLengthValues::from(section).nth(usize::MAX - 1))),
            strip(tlv_item(TypeLengthValues::from(section).skip(usize::MAX).next())),
            strip(tlv_item(TypeLengthValues::from(section).step_by(usize::MAX).nth(1))),
        ];
        let hint = TypeLengthValues::from(section).size_hint();
        json!({"k": "ok", "far": far, "nth": nth, "skip2": skip2, "count": count, "last": last, "each": each, "folded": folded,
               "collected": collected, "hint_lo": hint.0, "hint_hi": hint.1.map(|x| x as i64).unwrap_or(-1)})
    })
    .unwrap_or_else(|p| panic_value(&p));
    writeln!(out, "{}", json!({"sid": sid, "op": "TlvDerived", "d": derived})).unwrap();
    n += 1;
    let bound = section.len() + 6;
    let mut after_none = 0;
    let mut calls = 0;
    loop {
        if calls >= bound {
            writeln!(out, "{}", json!({"sid": sid, "op": "TlvBound", "calls": calls})).unwrap();
            n += 1;
            break;
        }
        calls += 1;
        let r = guard(|| tlv_item(tlvs.next()));
        match r {
            Ok(v) => {
                let is_none = v["k"] == "none";
                writeln!(out, "{}", json!({"sid": sid, "op": "TlvNext", "r": v, "probe": probe(&tlvs)})).unwrap();
                n += 1;
                if is_none {
                    after_none += 1;
                    if after_none > 2 {
                        break;
                    }
                }
            }
            Err(p) => {
                writeln!(out, "{}", json!({"sid": sid, "op": "TlvNext", "r": panic_value(&p)})).unwrap();
                n += 1;
                break;
            }
        }
    }
    for prog in progs {
        n += run_program(sid, section, prog, out);
    }
    n
}

/// A section of 4 GiB and more: `head` followed by zero bytes up to gib * 2^30 + extra bytes in
/// all (allocated zeroed; only the head is ever touched by a correct cursor's first items). The
/// first k items are logged; the specification is given the head and the first m zeros.
pub fn run_huge(sid: &str, tag: &Value, head: &[u8], gib: u64, extra: u64, k: usize, out: &mut dyn Write) -> usize {
    let total = ((gib << 30) + extra) as usize;
    let m = 3 * (k + 3);
    let r = guard(|| {
        let mut big = vec![0u8; total.max(head.len())];
        big[..head.len()].copy_from_slice(head);
        let items: Vec<Value> = TypeLengthValues::from(&big[..]).take(k).map(|r| strip(tlv_item(Some(r)))).collect();
        json!({"k": "ok", "items": items})
    })
    .unwrap_or_else(|p| panic_value(&p));
    writeln!(out, "{}", json!({"fam": "tlv", "sid": sid, "op": "TlvHuge", "tag": tag, "head": rl(head), "m": m, "gib": gib, "extra": extra, "k": k, "r": r})).unwrap();
    1
}

pub fn run_scenario(v: &Value, idx: usize, out: &mut dyn Write) -> usize {
    let sid = v["sid"].as_str().map(|s| s.to_string()).unwrap_or(format!("scn-{}", idx));
    if let Some(h) = v.get("huge") {
        return run_huge(&sid, v.get("tag").unwrap_or(&json!({"g": "scenario"})), &unrl(&h["head"]), h["gib"].as_u64().unwrap_or(4), h["extra"].as_u64().unwrap_or(0), h["k"].as_u64().unwrap_or(4) as usize, out);
    }
    let sec = unrl(&v["sec"]);
    let progs: Vec<Vec<POp>> = v
        .get("progs")
        .and_then(|p| p.as_array())
        .map(|ps| ps.iter().map(|p| p.as_array().map(|ops| ops.iter().map(pop_from).collect()).unwrap_or_default()).collect())
        .unwrap_or_default();
    run_section_progs(&sid, v.get("tag").unwrap_or(&json!({"g": "scenario"})), &sec, &progs, out)
}

fn item(kind: u8, len: usize, fill: u8) -> Vec<u8> {
    let mut v = vec![kind];
    v.extend_from_slice(&(len as u16).to_be_bytes());
    v.extend(std::iter::repeat(fill).take(len));
    v
}

pub fn generate(name: &str, count: usize, rng: &mut Rng, out: &mut dyn Write) -> usize {
    let mut n = 0;
    match name {
        // random bytes biased to small length fields
        "tlvrand" => {
            for i in 0..count {
                let len = rng.below(65) as usize;
                let sec: Vec<u8> = (0..len).map(|_| if rng.chance(2, 3) { rng.below(6) as u8 } else { rng.next() as u8 }).collect();
                n += run_section(&format!("tlvrand-{}", i), &json!({"g": "tlvrand"}), &sec, out);
            }
        }
        // well-formed sequences cut at every point
        "tlvtrunc" => {
            for i in 0..count {
                let k = 1 + rng.below(3) as usize;
                let mut sec = Vec::new();
                for _ in 0..k {
                    let len = *rng.pick(&[0usize, 1, 2, 3, 255, 256]);
                    sec.extend(item(rng.next() as u8, len, rng.next() as u8));
                }
                let cut = if rng.chance(1, 5) { sec.len() } else { rng.below(sec.len() as u64 + 1) as usize };
                n += run_section(&format!("tlvtrunc-{}", i), &json!({"g": "tlvtrunc"}), &sec[..cut], out);
            }
        }
        // extreme value lengths
        "tlvbig" => {
            // every declared length from 65531 to 65535 (and two mid-range ones), each with the value
            // complete, one byte short, followed by another item, followed by stray bytes
            let lens = [65535usize, 65534, 65533, 65532, 65531, 32768, 4096];
            let start = rng.below(28) as usize;
            for i in 0..count {
                let k = (start + i * 5) % 28;
                let len = lens[k % 7];
                let mut sec = item(rng.next() as u8, len, rng.next() as u8 | 1);
                match k / 7 {
                    0 => {}
                    1 => { sec.pop(); }
                    2 => { sec.extend(item(4, 0, 0)); }
                    _ => { sec.extend_from_slice(&[1, 2]); }
                }
                n += run_section(&format!("tlvbig-{}", i), &json!({"g": "tlvbig"}), &sec, out);
            }
        }
        // many empty-valued items: the step bound matters here
        "tlvmany" => {
            for i in 0..count {
                let k = rng.range(1, 400) as usize;
                let mut sec = Vec::new();
                for j in 0..k {
                    sec.extend(item(j as u8, 0, 0));
                }
                if rng.chance(1, 2) {
                    sec.extend_from_slice(&[7u8; 2][..rng.range(1, 2) as usize]);
                }
                n += run_section(&format!("tlvmany-{}", i), &json!({"g": "tlvmany"}), &sec, out);
            }
        }
        // several items of unequal sizes (sometimes cut short), several programs of next / nth /
        // consuming adaptors on ONE cursor each, and step_by on fresh ones
        "tlvprog" => {
            for i in 0..count {
                let k = 2 + rng.below(7) as usize;
                let mut sec = Vec::new();
                for j in 0..k {
                    let len = *rng.pick(&[0usize, 0, 1, 2, 3, 5, 8, 255, 256]);
                    sec.extend(item((j as u8).wrapping_mul(17).wrapping_add(rng.below(3) as u8), len, rng.next() as u8));
                }
                match rng.below(5) {
                    0 => { let cut = rng.below(sec.len() as u64 + 1) as usize; sec.truncate(cut); }
                    1 => { sec.extend_from_slice(&[9, 0]); }
                    _ => {}
                }
                let mut progs = Vec::new();
                for _ in 0..3 {
                    let mut prog = Vec::new();
                    let steps = 1 + rng.below(5);
                    for _ in 0..steps {
                        prog.push(match rng.below(10) {
                            0..=3 => POp::Next,
                            4..=8 => POp::Nth(rng.below(4) as i64),
                            _ => POp::Nth(-1),
                        });
                    }
                    prog.push(POp::Rest(rng.pick(&["collect", "count", "last", "fold", "for_each"]).to_string()));
                    prog.push(POp::Next);
                    prog.push(POp::StepBy(1 + rng.below(4) as usize));
                    progs.push(prog);
                }
                n += run_section_progs(&format!("tlvprog-{}", i), &json!({"g": "tlvprog"}), &sec, &progs, out);
            }
        }
        // sections of 4 GiB and more whose length modulo 2^32 is smaller than / equal to / just above
        // the size of the first item
        "tlvhuge" => {
            for i in 0..count {
                let k = 1 + (i % 3);
                let mut head = Vec::new();
                for j in 0..k {
                    head.extend(item(1 + j as u8, *rng.pick(&[0usize, 1, 4, 9, 300]), 0xA0 + j as u8));
                }
                let first = 3 + u16::from_be_bytes([head[1], head[2]]) as u64;
                let extra = *rng.pick(&[0u64, 1, 2, 3, first - 1, first, first + 1, head.len() as u64, head.len() as u64 + 1]);
                let gib = if i % 4 == 3 { 8 } else { 4 };
                n += run_huge(&format!("tlvhuge-{}", i), &json!({"g": "tlvhuge"}), &head, gib, extra, k + 3, out);
            }
        }
        // sections with nested PP2_TYPE_SSL structures as HAProxy emits them (every client-flag value,
        // every subset of the sub-TLVs, nested areas cut short), between other items
        "tlvssl" => {
            for i in 0..count {
                let mut sec = Vec::new();
                if i % 3 == 0 { sec.extend(item(0x01, 2, b'h')); }
                let v = crate::builder::ssl_value(i);
                sec.push(0x20);
                sec.extend_from_slice(&(v.len() as u16).to_be_bytes());
                sec.extend_from_slice(&v);
                if i % 2 == 0 { sec.extend(item(0x30, 3, b'n')); }
                let progs = vec![vec![POp::Next, POp::Rest("collect".to_string())], vec![POp::Nth(1), POp::Next]];
                n += run_section_progs(&format!("tlvssl-{}", i), &json!({"g": "tlvssl"}), &sec, &progs, out);
            }
        }
        // every registered type (and a few others) with every value of a list of REALISTIC contents:
        // protocol names, host names (ASCII, punycode, UTF-8), paths, '..', NUL inside, checksums,
        // identifiers of 16 / 128 / 129 bytes, version strings - alone and between other items
        "tlvreal" => {
            let types: [u8; 16] = [0x01, 0x02, 0x03, 0x04, 0x05, 0x20, 0x21, 0x22, 0x23, 0x24, 0x25, 0x30, 0xEA, 0xEE, 0xE0, 0x00];
            let values: Vec<Vec<u8>> = crate::builder::realistic_values();
            let total = types.len() * values.len();
            let take = count.min(total);
            let step = total as f64 / take as f64;
            let off = (rng.below(97) as f64) / 97.0 * step;
            for i in 0..take {
                let idx = ((off + i as f64 * step) as usize).min(total - 1);
                let (t, v) = (types[idx % types.len()], &values[idx / types.len()]);
                let mut sec = Vec::new();
                if i % 3 == 1 { sec.extend(item(0x04, 1, 0)); }
                sec.push(t);
                sec.extend_from_slice(&(v.len() as u16).to_be_bytes());
                sec.extend_from_slice(v);
                if i % 2 == 0 { sec.extend(item(0xE1, 2, b'z')); }
                n += run_section(&format!("tlvreal-{}", i), &json!({"g": "tlvreal"}), &sec, out);
            }
        }
        other => panic!("unknown tlv generator {}", other),
    }
    n
}
