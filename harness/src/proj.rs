//! Projection of values returned by the crate under test into JSON observations.
//! Field access and `catch_unwind` only: no expectations, no classification.

use crate::util::{flat, guard, panic_value, rl};
use ppp::v1;
use ppp::v2;
use ppp::{HeaderResult, PartialResult};
use serde_json::{json, Map, Value};
use std::str::FromStr;

// ---------------------------------------------------------------------------------------------
// v1
// ---------------------------------------------------------------------------------------------

pub fn v1_addr_fields(a: &v1::Addresses, m: &mut Map<String, Value>) {
    match a {
        v1::Addresses::Unknown => {
            m.insert("proto".into(), json!("UNKNOWN"));
            m.insert("sa".into(), json!([]));
            m.insert("da".into(), json!([]));
            m.insert("sp".into(), json!(0));
            m.insert("dp".into(), json!(0));
        }
        v1::Addresses::Tcp4(a) => {
            m.insert("proto".into(), json!("TCP4"));
            m.insert("sa".into(), flat(&a.source_address.octets()));
            m.insert("da".into(), flat(&a.destination_address.octets()));
            m.insert("sp".into(), json!(a.source_port));
            m.insert("dp".into(), json!(a.destination_port));
        }
        v1::Addresses::Tcp6(a) => {
            m.insert("proto".into(), json!("TCP6"));
            m.insert("sa".into(), json!(a.source_address.segments().to_vec()));
            m.insert("da".into(), json!(a.destination_address.segments().to_vec()));
            m.insert("sp".into(), json!(a.source_port));
            m.insert("dp".into(), json!(a.destination_port));
        }
        // a variant this harness does not know (the enum grew): reported as such, not a build error
        _ => {
            m.insert("proto".into(), json!("OTHER"));
            m.insert("sa".into(), json!([]));
            m.insert("da".into(), json!([]));
            m.insert("sp".into(), json!(0));
            m.insert("dp".into(), json!(0));
        }
    }
}

pub fn v1_addr(a: &v1::Addresses) -> Value {
    let mut m = Map::new();
    v1_addr_fields(a, &mut m);
    Value::Object(m)
}

fn v1_error_name(e: &v1::ParseError) -> &'static str {
    use v1::ParseError::*;
    match e {
        InvalidPrefix => "InvalidPrefix",
        Partial => "Partial",
        MissingPrefix => "MissingPrefix",
        MissingNewLine => "MissingNewLine",
        MissingProtocol => "MissingProtocol",
        MissingSourceAddress => "MissingSourceAddress",
        MissingDestinationAddress => "MissingDestinationAddress",
        MissingSourcePort => "MissingSourcePort",
        MissingDestinationPort => "MissingDestinationPort",
        HeaderTooLong => "HeaderTooLong",
        InvalidProtocol => "InvalidProtocol",
        InvalidSuffix => "InvalidSuffix",
        InvalidSourceAddress(_) => "InvalidSourceAddress",
        InvalidDestinationAddress(_) => "InvalidDestinationAddress",
        InvalidSourcePort(_) => "InvalidSourcePort",
        InvalidDestinationPort(_) => "InvalidDestinationPort",
        _ => "OtherError",
    }
}

fn v1_err(e: &v1::ParseError, wrap: &str, inc: bool, cmp: bool) -> Value {
    json!({
        "k": "err",
        "einc": e.is_incomplete(),
        "ecmp": e.is_complete(),
        "e": v1_error_name(e),
        "w": wrap,
        "inc": inc,
        "cmp": cmp,
        "dbg": format!("{:?}", e),
        "fmt_ok": guard(|| fmt_all(e, 40)).is_ok(),
        "msg": guard(|| e.to_string()).unwrap_or_else(|p| format!("PANIC {}", p)),
    })
}

fn v1_bin_err(e: &v1::BinaryParseError, inc: bool, cmp: bool) -> Value {
    match e {
        v1::BinaryParseError::Parse(p) => {
            let mut v = v1_err(p, "Parse", inc, cmp);
            // the flags of the wrapper value itself
            v["einc"] = json!(e.is_incomplete());
            v["ecmp"] = json!(e.is_complete());
            v["iinc"] = json!(p.is_incomplete());
            v["icmp"] = json!(p.is_complete());
            v
        }
        v1::BinaryParseError::InvalidUtf8(u) => json!({
            "k": "err",
            "einc": e.is_incomplete(),
            "ecmp": e.is_complete(),
            "e": "InvalidUtf8",
            "w": "Utf8",
            "inc": inc,
            "cmp": cmp,
            "dbg": format!("{:?}", u),
            "msg": e.to_string(),
            "fmt_ok": guard(|| fmt_all(e, 40)).is_ok(),
        }),
        _ => json!({"k": "err", "e": "OtherError", "w": "Other", "inc": inc, "cmp": cmp, "einc": e.is_incomplete(), "ecmp": e.is_complete(), "dbg": format!("{:?}", e), "msg": e.to_string()}),
    }
}

/// Formats a value through `Display` with every precision 0..=n+2 and a few width / fill / flag
/// combinations, and through `Debug` (plain and pretty). Returns normally or panics (the caller
/// guards): nothing is expected of the text, only that formatting returns.
pub fn fmt_all<T: std::fmt::Display + std::fmt::Debug>(x: &T, n: usize) -> bool {
    let mut total = 0usize;
    for p in 0..=(n + 2) {
        total += format!("{:.*}", p, x).len();
    }
    total += format!("{:>w$}", x, w = n + 9).len();
    total += format!("{:<3}", x).len();
    total += format!("{:^50.5}", x).len();
    total += format!("{:*^9.2}", x).len();
    total += format!("{:#}", x).len();
    total += format!("{:+}", x).len();
    total += format!("{:010.4}", x).len();
    total += format!("{:?}", x).len();
    total += format!("{:#?}", x).len();
    total < usize::MAX
}

/// The views of a v1 header. Every accessor runs under its own panic guard.
fn v1_views(h: &v1::Header) -> Value {
    let protocol = match guard(|| h.protocol().as_bytes().to_vec()) {
        Ok(b) => json!({"k": "ok", "v": flat(&b)}),
        Err(p) => panic_value(&p),
    };
    let astr = match guard(|| h.addresses_str().as_bytes().to_vec()) {
        Ok(b) => json!({"k": "ok", "v": flat(&b)}),
        Err(p) => panic_value(&p),
    };
    let disp = match guard(|| h.to_string().into_bytes()) {
        Ok(b) => json!({"k": "ok", "v": flat(&b)}),
        Err(p) => panic_value(&p),
    };
    let adisp = match guard(|| h.addresses.to_string().into_bytes()) {
        Ok(b) => json!({"k": "ok", "v": flat(&b)}),
        Err(p) => panic_value(&p),
    };
    let dbg = guard(|| fmt_all(h, h.header.len()) && fmt_all(&h.addresses, 90)).is_ok();
    json!({"protocol": protocol, "astr": astr, "disp": disp, "adisp": adisp, "dbg_ok": dbg,
           "hdr": flat(h.header.as_bytes())})
}

fn v1_ok(h: &v1::Header, inc: bool, cmp: bool, full: bool) -> Map<String, Value> {
    let mut m = Map::new();
    m.insert("k".into(), json!("ok"));
    m.insert("inc".into(), json!(inc));
    m.insert("cmp".into(), json!(cmp));
    m.insert("hdr".into(), flat(h.header.as_bytes()));
    v1_addr_fields(&h.addresses, &mut m);
    if full {
        m.insert("vw".into(), v1_views(h));
    }
    m
}

/// Every other way of copying a v1 header that the public API offers (`Clone::clone`,
/// `Clone::clone_from` onto an unrelated owned header) gives a header equal to the original
/// with the same views.
fn v1_copies_agree(h: &v1::Header) -> bool {
    let c = h.clone();
    let base = v1::Header::try_from("PROXY TCP4 1.2.3.4 5.6.7.8 9 10\r\n").map(|b| b.to_owned());
    let mut d: v1::Header<'_> = match base {
        Ok(b) => b,
        Err(_) => return c == *h && v1_views(&c) == v1_views(h),
    };
    d.clone_from(h);
    let reference = v1_views(h);
    c == *h && d == *h && v1_views(&c) == reference && v1_views(&d) == reference
        && c.addresses == h.addresses && d.addresses == h.addresses && d.header == h.header
}

fn v2_copies_agree(h: &v2::Header) -> bool {
    let c = h.clone();
    let base_bytes: Vec<u8> = {
        let mut b = b"\r\n\r\n\0\r\nQUIT\n".to_vec();
        b.extend_from_slice(&[0x21, 0x11, 0, 15, 9, 9, 9, 9, 8, 8, 8, 8, 0, 1, 0, 2, 0xEE, 0, 0]);
        b
    };
    let base = v2::Header::try_from(&base_bytes[..]).map(|b| b.to_owned());
    let mut d: v2::Header<'_> = match base {
        Ok(b) => b,
        Err(_) => return c == *h,
    };
    d.clone_from(h);
    c == *h && d == *h && c.header == h.header && d.header == h.header && d.addresses == h.addresses
        && d.command == h.command && d.protocol == h.protocol && d.as_bytes() == h.as_bytes()
        && d.tlv_bytes() == h.tlv_bytes() && d.address_bytes() == h.address_bytes()
}

fn tlv_copies_agree(t: &v2::TypeLengthValue) -> bool {
    let c = t.clone();
    // destinations of clone_from: an owned TLV with a larger buffer and another type, an owned
    // one with a smaller buffer, a borrowed one
    let big = vec![0x5Au8; t.value.len() + 9];
    let mut d1: v2::TypeLengthValue<'_> = v2::TypeLengthValue::new(t.kind ^ 0xFF, &big[..]).to_owned();
    d1.clone_from(t);
    let mut d2: v2::TypeLengthValue<'_> = v2::TypeLengthValue::new(t.kind.wrapping_add(1), &big[..0]).to_owned();
    d2.clone_from(t);
    let mut d3: v2::TypeLengthValue<'_> = v2::TypeLengthValue::new(t.kind.wrapping_add(7), &big[..1]);
    d3.clone_from(t);
    let same = |x: &v2::TypeLengthValue| *x == *t && x.kind == t.kind && x.value == t.value && x.len() == t.len() && x.is_empty() == t.is_empty();
    same(&c) && same(&d1) && same(&d2) && same(&d3)
}

/// `v1::Header::try_from(&[u8])` on a private copy of the input; the copy is overwritten and
/// dropped before the owned header's views are read.
pub fn v1_bytes(input: &[u8], full: bool) -> Value {
    v1_bytes_opt(input, full, true)
}

/// `copy = false`: parse the caller's buffer in place (buffers of several GiB are not copied and
/// not overwritten).
pub fn v1_bytes_opt(input: &[u8], full: bool, copy: bool) -> Value {
    let r = guard(|| {
        let mut scratch = if copy { input.to_vec() } else { Vec::new() };
        let (mut out, owned) = {
            let src: &[u8] = if copy { &scratch[..] } else { input };
            let result = v1::Header::try_from(src);
            let inc = result.is_incomplete();
            let cmp = result.is_complete();
            match &result {
                Ok(h) => {
                    let m = v1_ok(h, inc, cmp, full);
                    let owned = if full {
                        let o = h.to_owned();
                        let eq = o == *h && v1_copies_agree(h);
                        Some((o, eq))
                    } else {
                        None
                    };
                    (Value::Object(m), owned)
                }
                Err(e) => (v1_bin_err(e, inc, cmp), None),
            }
        };
        for b in scratch.iter_mut() {
            *b = 0xAA;
        }
        drop(scratch);
        if let Some((o, eq)) = owned {
            let mut ow = v1_views(&o);
            ow["eq"] = json!(eq);
            out["own"] = ow;
        }
        out
    });
    r.unwrap_or_else(|p| panic_value(&p))
}

pub fn v1_str(input: &str, full: bool) -> Value {
    v1_str_opt(input, full, true)
}

pub fn v1_str_opt(input: &str, full: bool, copy: bool) -> Value {
    let r = guard(|| {
        let mut scratch = if copy { input.to_string() } else { String::new() };
        let (mut out, owned) = {
            let src: &str = if copy { scratch.as_str() } else { input };
            let result = v1::Header::try_from(src);
            let inc = result.is_incomplete();
            let cmp = result.is_complete();
            match &result {
                Ok(h) => {
                    let m = v1_ok(h, inc, cmp, full);
                    let owned = if full {
                        let o = h.to_owned();
                        let eq = o == *h && v1_copies_agree(h);
                        Some((o, eq))
                    } else {
                        None
                    };
                    (Value::Object(m), owned)
                }
                Err(e) => (v1_err(e, "-", inc, cmp), None),
            }
        };
        scratch.clear();
        scratch.push_str("overwritten");
        drop(scratch);
        if let Some((o, eq)) = owned {
            let mut ow = v1_views(&o);
            ow["eq"] = json!(eq);
            out["own"] = ow;
        }
        out
    });
    r.unwrap_or_else(|p| panic_value(&p))
}

pub fn v1_from_str_header(input: &str, full: bool) -> Value {
    let r = guard(|| {
        let result = v1::Header::from_str(input);
        let inc = result.is_incomplete();
        let cmp = result.is_complete();
        match &result {
            Ok(h) => Value::Object(v1_ok(h, inc, cmp, full)),
            Err(e) => v1_err(e, "-", inc, cmp),
        }
    });
    r.unwrap_or_else(|p| panic_value(&p))
}

pub fn v1_from_str_addresses(input: &str) -> Value {
    let r = guard(|| {
        let result = v1::Addresses::from_str(input);
        let inc = result.is_incomplete();
        let cmp = result.is_complete();
        match &result {
            Ok(a) => {
                let mut m = Map::new();
                m.insert("k".into(), json!("ok"));
                m.insert("inc".into(), json!(inc));
                m.insert("cmp".into(), json!(cmp));
                v1_addr_fields(a, &mut m);
                Value::Object(m)
            }
            Err(e) => v1_err(e, "-", inc, cmp),
        }
    });
    r.unwrap_or_else(|p| panic_value(&p))
}

// ---------------------------------------------------------------------------------------------
// v2
// ---------------------------------------------------------------------------------------------

pub fn v2_addr(a: &v2::Addresses) -> Value {
    match a {
        v2::Addresses::Unspecified => json!({"k": "Unspecified"}),
        v2::Addresses::IPv4(a) => json!({
            "k": "IPv4",
            "sa": flat(&a.source_address.octets()),
            "da": flat(&a.destination_address.octets()),
            "sp": a.source_port,
            "dp": a.destination_port,
        }),
        v2::Addresses::IPv6(a) => json!({
            "k": "IPv6",
            "sa": flat(&a.source_address.octets()),
            "da": flat(&a.destination_address.octets()),
            "sp": a.source_port,
            "dp": a.destination_port,
        }),
        v2::Addresses::Unix(a) => json!({
            "k": "Unix",
            "src": rl(&a.source),
            "dst": rl(&a.destination),
        }),
        _ => json!({"k": "Other"}),
    }
}

pub fn family_name(f: v2::AddressFamily) -> &'static str {
    match f {
        v2::AddressFamily::Unspecified => "Unspecified",
        v2::AddressFamily::IPv4 => "IPv4",
        v2::AddressFamily::IPv6 => "IPv6",
        v2::AddressFamily::Unix => "Unix",
        _ => "Other",
    }
}

pub fn v2_err(e: &v2::ParseError) -> Value {
    use v2::ParseError::*;
    let (name, a, b): (&str, u64, u64) = match e {
        Incomplete(n) => ("Incomplete", *n as u64, 0),
        Prefix => ("Prefix", 0, 0),
        Version(v) => ("Version", *v as u64, 0),
        Command(c) => ("Command", *c as u64, 0),
        AddressFamily(a) => ("AddressFamily", *a as u64, 0),
        Protocol(p) => ("Protocol", *p as u64, 0),
        Partial(h, n) => ("Partial", *h as u64, *n as u64),
        InvalidAddresses(l, n) => ("InvalidAddresses", *l as u64, *n as u64),
        InvalidTLV(t, l) => ("InvalidTLV", *t as u64, *l as u64),
        Leftovers(n) => ("Leftovers", *n as u64, 0),
        _ => ("OtherError", 0, 0),
    };
    json!({"k": "err", "e": name, "a": a, "b": b, "einc": e.is_incomplete(), "ecmp": e.is_complete(),
           "fmt_ok": guard(|| fmt_all(e, 40)).is_ok(),
           "msg": guard(|| e.to_string()).unwrap_or_else(|p| format!("PANIC {}", p))})
}

/// One `next()` on a TLV cursor, projected.
pub fn tlv_item(item: Option<Result<v2::TypeLengthValue<'_>, v2::ParseError>>) -> Value {
    let flags = item.as_ref().map(|r| (r.is_incomplete(), r.is_complete()));
    let mut v = tlv_item_inner(item);
    if let Some((inc, cmp)) = flags {
        v["inc"] = json!(inc);
        v["cmp"] = json!(cmp);
    }
    v
}

fn tlv_item_inner(item: Option<Result<v2::TypeLengthValue<'_>, v2::ParseError>>) -> Value {
    match item {
        None => json!({"k": "none"}),
        Some(Ok(t)) => {
            let owned = t.to_owned();
            let eq = owned == t && tlv_copies_agree(&t);
            json!({"k": "ok", "t": t.kind, "v": rl(t.value.as_ref()), "len": t.len(),
                   "empty": t.is_empty(), "own_eq": eq, "own_t": owned.kind,
                   "own_v": rl(owned.value.as_ref())})
        }
        Some(Err(e)) => v2_err(&e),
    }
}

/// Iterates `tlvs` to exhaustion plus `extra` further calls, bounded by `bound` calls in total.
pub fn tlv_walk(mut tlvs: v2::TypeLengthValues<'_>, bound: usize, extra: usize) -> Value {
    let mut items = Vec::new();
    let mut after_none = 0;
    let mut hit_bound = false;
    loop {
        if items.len() >= bound {
            hit_bound = true;
            break;
        }
        let r = guard(|| tlv_item(tlvs.next()));
        match r {
            Ok(v) => {
                let is_none = v["k"] == "none";
                items.push(v);
                if is_none {
                    after_none += 1;
                    if after_none > extra {
                        break;
                    }
                }
            }
            Err(p) => {
                items.push(panic_value(&p));
                break;
            }
        }
    }
    // long walks are logged as their first 40 and last 5 items plus the total count
    let n = items.len();
    if n > 50 {
        let mut kept: Vec<Value> = items[..40].to_vec();
        kept.extend_from_slice(&items[n - 5..]);
        items = kept;
    }
    let real = n; // number of next() calls made
    json!({"k": "ok", "items": items, "n": real, "hit_bound": hit_bound})
}

/// The views of a v2 header: `{"k":"ok", ...}` or `{"k":"panic","which":accessor}`.
fn v2_views(h: &v2::Header) -> Value {
    let mut m = Map::new();
    m.insert("k".into(), json!("ok"));
    let mut put = |name: &str, r: Result<Value, String>| -> Result<(), Value> {
        match r {
            Ok(v) => {
                m.insert(name.into(), v);
                Ok(())
            }
            Err(p) => Err(json!({"k": "panic", "which": name, "msg": p})),
        }
    };
    let tb_len = guard(|| h.tlv_bytes().len()).unwrap_or(0);
    let r = (|| -> Result<(), Value> {
        put("length", guard(|| json!(h.length())))?;
        put("len", guard(|| json!(h.len())))?;
        put("is_empty", guard(|| json!(h.is_empty())))?;
        put("af", guard(|| json!(family_name(h.address_family()))))?;
        put("ab", guard(|| rl(h.address_bytes())))?;
        put("tb", guard(|| rl(h.tlv_bytes())))?;
        put("raw", guard(|| rl(h.as_bytes())))?;
        put("alen", guard(|| json!(h.addresses.len())))?;
        put("aempty", guard(|| json!(h.addresses.is_empty())))?;
        put("afsize", guard(|| json!(u16::from(h.address_family()))))?;
        put("afbl", guard(|| json!(h.address_family().byte_length().map(|n| n as i64).unwrap_or(-1))))?;
        put("tlvs_len", guard(|| json!(h.tlvs().len())))?;
        put("tlvs_empty", guard(|| json!(h.tlvs().is_empty())))?;
        put("tlvs_bytes_eq", guard(|| json!(h.tlvs().as_bytes() == h.tlv_bytes())))?;
        put("disp", guard(|| json!(h.to_string())))?;
        put("dbg_ok", guard(|| json!(fmt_all(h, 80) && !format!("{:?} {:#?}", h.addresses, h.addresses).is_empty())))?;
        put("walk", guard(|| tlv_walk(h.tlvs(), tb_len + 6, 2)))?;
        Ok(())
    })();
    match r {
        Ok(()) => Value::Object(m),
        Err(p) => p,
    }
}

fn v2_ok(h: &v2::Header, full: bool) -> Value {
    let mut m = Map::new();
    m.insert("k".into(), json!("ok"));
    m.insert("ver".into(), json!(match h.version { v2::Version::Two => "Two", _ => "Other" }));
    m.insert(
        "cmd".into(),
        json!(match h.command {
            v2::Command::Local => "Local",
            v2::Command::Proxy => "Proxy",
            _ => "Other",
        }),
    );
    m.insert(
        "tr".into(),
        json!(match h.protocol {
            v2::Protocol::Unspecified => "Unspecified",
            v2::Protocol::Stream => "Stream",
            v2::Protocol::Datagram => "Datagram",
            _ => "Other",
        }),
    );
    m.insert("addr".into(), v2_addr(&h.addresses));
    m.insert("raw".into(), rl(h.header.as_ref()));
    if full {
        m.insert("vw".into(), v2_views(h));
    }
    Value::Object(m)
}

pub fn v2_bytes(input: &[u8], full: bool) -> Value {
    v2_bytes_opt(input, full, true)
}

pub fn v2_bytes_opt(input: &[u8], full: bool, copy: bool) -> Value {
    let r = guard(|| {
        let mut scratch = if copy { input.to_vec() } else { Vec::new() };
        let (mut out, owned) = {
            let src: &[u8] = if copy { &scratch[..] } else { input };
            let result = v2::Header::try_from(src);
            let inc = result.is_incomplete();
            let cmp = result.is_complete();
            match &result {
                Ok(h) => {
                    let out = v2_ok(h, full);
                    let owned = if full {
                        let o = h.to_owned();
                        let eq = o == *h && v2_copies_agree(h);
                        Some((o, eq))
                    } else {
                        None
                    };
                    (with_flags(out, inc, cmp), owned)
                }
                Err(e) => (with_flags(v2_err(e), inc, cmp), None),
            }
        };
        for b in scratch.iter_mut() {
            *b = 0xAA;
        }
        drop(scratch);
        if let Some((o, eq)) = owned {
            let mut ow = v2_views(&o);
            if ow["k"] == "ok" {
                ow["eq"] = json!(eq);
                ow["addr"] = v2_addr(&o.addresses);
            }
            out["own"] = ow;
        }
        out
    });
    r.unwrap_or_else(|p| panic_value(&p))
}

fn with_flags(mut v: Value, inc: bool, cmp: bool) -> Value {
    v["inc"] = json!(inc);
    v["cmp"] = json!(cmp);
    v
}

// ---------------------------------------------------------------------------------------------
// auto-detection
// ---------------------------------------------------------------------------------------------

pub fn auto_bytes(input: &[u8]) -> Value {
    let r = guard(|| {
        let result = HeaderResult::parse(input);
        let inc = result.is_incomplete();
        let cmp = result.is_complete();
        match &result {
            HeaderResult::V1(r) => {
                let inner = match r {
                    Ok(h) => Value::Object(v1_ok(h, r.is_incomplete(), r.is_complete(), false)),
                    Err(e) => v1_bin_err(e, r.is_incomplete(), r.is_complete()),
                };
                json!({"k": inner["k"].clone(), "tag": "V1", "inc": inc, "cmp": cmp, "r": inner})
            }
            HeaderResult::V2(r) => {
                let inner = match r {
                    Ok(h) => with_flags(v2_ok(h, false), r.is_incomplete(), r.is_complete()),
                    Err(e) => with_flags(v2_err(e), r.is_incomplete(), r.is_complete()),
                };
                json!({"k": inner["k"].clone(), "tag": "V2", "inc": inc, "cmp": cmp, "r": inner})
            }
        }
    });
    r.unwrap_or_else(|p| panic_value(&p))
}

/// The byte entry points on a buffer of several GiB, parsed in place (the text entry points
/// would have to validate all of it as UTF-8 first and are not run).
pub fn huge_entry_points(buf: &[u8], text: bool) -> Value {
    let na = json!({"k": "na"});
    // the text entry points only when asked for (the whole buffer has to be validated as UTF-8
    // first, which takes seconds)
    let (v1s, v1fh, v1fa) = match (text, if text { std::str::from_utf8(buf).ok() } else { None }) {
        (true, Some(s)) => (v1_str_opt(s, true, false), v1_from_str_header(s, false), v1_from_str_addresses(s)),
        _ => (na.clone(), na.clone(), na),
    };
    json!({
        "v1b": v1_bytes_opt(buf, true, false),
        "v1s": v1s,
        "v1fh": v1fh,
        "v1fa": v1fa,
        "v2": v2_bytes_opt(buf, true, false),
        "auto": auto_bytes(buf),
    })
}

/// All six entry points on the caller's buffer itself (no private copies, nothing overwritten):
/// for receivers that keep ONE read buffer across connections.
pub fn inplace_entry_points(buf: &[u8]) -> Value {
    let na = json!({"k": "na"});
    let (v1s, v1fh, v1fa) = match std::str::from_utf8(buf) {
        Ok(s) => (v1_str_opt(s, true, false), v1_from_str_header(s, false), v1_from_str_addresses(s)),
        Err(_) => (na.clone(), na.clone(), na),
    };
    json!({
        "v1b": v1_bytes_opt(buf, true, false),
        "v1s": v1s,
        "v1fh": v1fh,
        "v1fa": v1fa,
        "v2": v2_bytes_opt(buf, true, false),
        "auto": auto_bytes(buf),
    })
}

thread_local! {
    static SHIFTED: std::cell::RefCell<Vec<u8>> = std::cell::RefCell::new(Vec::new());
}

/// The same bytes at other memory positions: a receiver's buffer does not always start at the
/// beginning of an allocation (a slice past the previous header, a ring buffer, a field of a larger
/// struct).  The bytes are parsed in place (no private copies) at a 16-byte aligned address and
/// at every other residue modulo 16 of the start address (a few of them for long buffers); the
/// observations that differ from the aligned one are returned with their shift.  On a crate whose
/// result depends on the bytes alone the list is empty.
pub fn moved_observations(buf: &[u8]) -> Vec<(usize, Value)> {
    const ALL: [usize; 15] = [1, 2, 3, 4, 5, 6, 7, 8, 9, 10, 11, 12, 13, 14, 15];
    const FEW: [usize; 4] = [1, 3, 7, 9];
    if buf.is_empty() || buf.len() > (1 << 20) {
        return Vec::new();
    }
    let shifts: &[usize] = if buf.len() <= 4096 { &ALL } else { &FEW };
    SHIFTED.with(|s| {
        let mut v = s.borrow_mut();
        let need = buf.len() + 32;
        if v.len() < need {
            v.resize(need, 0);
        }
        let off = (16 - (v.as_ptr() as usize % 16)) % 16;
        let mut out = Vec::new();
        v[off..off + buf.len()].copy_from_slice(buf);
        // compared through the Debug text of each entry point's result (cheap); the full
        // observation is taken only where that differs
        let base = result_digest(&v[off..off + buf.len()]);
        for &k in shifts {
            v[off + k..off + k + buf.len()].copy_from_slice(buf);
            if result_digest(&v[off + k..off + k + buf.len()]) != base {
                out.push((k, inplace_entry_points(&v[off + k..off + k + buf.len()])));
            }
        }
        out
    })
}

/// The Debug text of what each of the six entry points returns for `buf`, parsed in place.
fn result_digest(buf: &[u8]) -> String {
    let text = std::str::from_utf8(buf).ok();
    let p = |r: Result<String, String>| r.unwrap_or_else(|m| format!("panic {}", m));
    let mut d = String::new();
    d.push_str(&p(guard(|| format!("{:?}", v1::Header::try_from(buf)))));
    d.push('|');
    d.push_str(&p(guard(|| format!("{:?}", v2::Header::try_from(buf)))));
    d.push('|');
    d.push_str(&p(guard(|| format!("{:?}", ppp::HeaderResult::parse(buf)))));
    if let Some(s) = text {
        d.push('|');
        d.push_str(&p(guard(|| format!("{:?}", v1::Header::try_from(s)))));
        d.push('|');
        d.push_str(&p(guard(|| format!("{:?}", s.parse::<v1::Header>()))));
        d.push('|');
        d.push_str(&p(guard(|| format!("{:?}", s.parse::<v1::Addresses>()))));
    }
    d
}

/// All six entry points on one buffer.
pub fn all_entry_points(buf: &[u8], full: bool) -> Value {
    let na = json!({"k": "na"});
    let (v1s, v1fh, v1fa) = match std::str::from_utf8(buf) {
        Ok(s) => (
            v1_str(s, full),
            v1_from_str_header(s, false),
            v1_from_str_addresses(s),
        ),
        Err(_) => (na.clone(), na.clone(), na),
    };
    json!({
        "v1b": v1_bytes(buf, full),
        "v1s": v1s,
        "v1fh": v1fh,
        "v1fa": v1fa,
        "v2": v2_bytes(buf, full),
        "auto": auto_bytes(buf),
    })
}
