//! The `builder` and `writer` families: call sequences on `v2::Builder` / `v2::Writer`.
//! After every builder call the harness also records what `build()` returns for the call-sequence
//! prefix ending there (the projection of the builder's abstract state through the public API).

use crate::proj::{v2_addr, v2_bytes};
use crate::util::{guard, panic_value, rl, unflat, unrl, Rng};
use ppp::v2::{self, Builder, Type, TypeLengthValue, TypeLengthValues, WriteToHeader, Writer};
use serde_json::{json, Value};
use std::io;
use std::io::Write;
use std::net::{Ipv4Addr, Ipv6Addr};

#[derive(Clone, Debug)]
pub enum Kind {
    Raw(u8),
    Named(Type),
}

#[derive(Clone, Debug)]
pub enum Payload {
    Int { ty: String, neg: bool, mag: Vec<u8> },
    Slice(Vec<u8>),
    Addr(v2::Addresses),
    Tlv(Kind, Vec<u8>),
    Pair(Kind, Vec<u8>),
    Type(Type),
    /// a TLV section; the cursor is advanced by `next()` this many times before it is written
    Tlvs(Vec<u8>, usize),
    /// not a value of the crate: one direct `io::Write::write` (then `flush`) on the writer
    Raw(Vec<u8>),
    /// a user-defined `WriteToHeader` value that appends the bytes and returns the given number
    /// (composite payloads return what they like: a count of items, 0, ...); the last field says
    /// how its `write_to` obtains the bytes: 0 = it has them, 1 = by calling `to_bytes()` on its
    /// parts (a nested conversion, as a composite TLV does to learn its length), 2 = by writing its
    /// parts into writers of its own
    Custom(Vec<u8>, usize, u8),
}

/// See `Payload::Custom`.
pub struct CustomWrite<'a>(pub &'a [u8], pub usize, pub u8);

impl<'a> WriteToHeader for CustomWrite<'a> {
    fn write_to(&self, writer: &mut Writer) -> io::Result<usize> {
        // whichever way the bytes are obtained, they reach `writer` in ONE write
        let step = (1 + self.0.len() / 3).min(60000);
        match self.2 {
            0 => io::Write::write_all(writer, self.0)?,
            1 => {
                let mut body = self.0[..0].to_bytes()?;
                for part in self.0.chunks(step) {
                    body.extend(part.to_bytes()?);
                }
                io::Write::write_all(writer, &body)?
            }
            _ => {
                let mut body = Vec::new();
                for part in self.0.chunks(step) {
                    let mut inner = Writer::default();
                    part.write_to(&mut inner)?;
                    body.extend(inner.finish());
                }
                io::Write::write_all(writer, &body)?
            }
        }
        Ok(self.1)
    }
}

/// `Writer` implements `io::Write`; this wraps one direct `write` + `flush` as a user-defined
/// `WriteToHeader` value (the trait is public, so callers can do the same).
pub struct RawWrite<'a>(pub &'a [u8]);

impl<'a> WriteToHeader for RawWrite<'a> {
    fn write_to(&self, writer: &mut Writer) -> io::Result<usize> {
        let n = io::Write::write(writer, self.0)?;
        io::Write::flush(writer)?;
        Ok(n)
    }
}

#[derive(Clone, Debug)]
pub enum Op {
    /// `bitor`: obtain the two control bytes from the typed API (`Version::Two | Command::..`,
    /// `AddressFamily::.. | Protocol::..`) instead of passing the raw codes
    /// bitor: 0 = raw codes, 1 = typed API as `Version | Command`, `AddressFamily | Protocol`,
    /// 2 = typed API with the operands the other way round
    New { vc: u8, afp: u8, bitor: u8 },
    With { vc: u8, tr: v2::Protocol, addr: v2::Addresses, bitor: u8 },
    Reserve(usize),
    SetLen(Option<u16>),
    Write(Payload),
    /// a batch; `lazy` = handed over through an iterator adaptor that does not know its length
    Writes(Vec<Payload>, bool),
    /// a batch given as runs (payload, how many times in a row): batches of tens of thousands of items
    /// last field: hand the same payloads over one `write_payload` call at a time instead
    WritesRep(Vec<(Payload, usize)>, bool, bool),
    WriteTlv(Kind, Vec<u8>),
    Build,
}

pub const TYPES: [(Type, &str); 12] = [
    (Type::ALPN, "ALPN"),
    (Type::Authority, "Authority"),
    (Type::CRC32C, "CRC32C"),
    (Type::NoOp, "NoOp"),
    (Type::UniqueId, "UniqueId"),
    (Type::SSL, "SSL"),
    (Type::SSLVersion, "SSLVersion"),
    (Type::SSLCommonName, "SSLCommonName"),
    (Type::SSLCipher, "SSLCipher"),
    (Type::SSLSignatureAlgorithm, "SSLSignatureAlgorithm"),
    (Type::SSLKeyAlgorithm, "SSLKeyAlgorithm"),
    (Type::NetworkNamespace, "NetworkNamespace"),
];

fn type_name(t: Type) -> &'static str {
    TYPES.iter().find(|(x, _)| *x == t).map(|(_, n)| *n).unwrap()
}

fn type_from(name: &str) -> Type {
    TYPES.iter().find(|(_, n)| *n == name).map(|(t, _)| *t).unwrap_or_else(|| panic!("type {}", name))
}

// ---- JSON <-> values -------------------------------------------------------------------------

pub fn kind_json(k: &Kind) -> Value {
    match k {
        Kind::Raw(c) => json!({"ty": "raw", "code": c}),
        Kind::Named(t) => json!({"ty": "named", "name": type_name(*t)}),
    }
}

fn kind_from(v: &Value) -> Kind {
    if v["ty"] == "raw" {
        Kind::Raw(v["code"].as_u64().unwrap() as u8)
    } else {
        Kind::Named(type_from(v["name"].as_str().unwrap()))
    }
}

pub fn addr_from(v: &Value) -> v2::Addresses {
    match v["k"].as_str().unwrap() {
        "Unspecified" => v2::Addresses::Unspecified,
        "IPv4" => {
            let sa = unflat(&v["sa"]);
            let da = unflat(&v["da"]);
            v2::Addresses::IPv4(v2::IPv4 {
                source_address: Ipv4Addr::new(sa[0], sa[1], sa[2], sa[3]),
                destination_address: Ipv4Addr::new(da[0], da[1], da[2], da[3]),
                source_port: v["sp"].as_u64().unwrap() as u16,
                destination_port: v["dp"].as_u64().unwrap() as u16,
            })
        }
        "IPv6" => {
            let sa: [u8; 16] = unflat(&v["sa"]).try_into().unwrap();
            let da: [u8; 16] = unflat(&v["da"]).try_into().unwrap();
            v2::Addresses::IPv6(v2::IPv6 {
                source_address: Ipv6Addr::from(sa),
                destination_address: Ipv6Addr::from(da),
                source_port: v["sp"].as_u64().unwrap() as u16,
                destination_port: v["dp"].as_u64().unwrap() as u16,
            })
        }
        _ => {
            let s: [u8; 108] = unrl(&v["src"]).try_into().unwrap();
            let d: [u8; 108] = unrl(&v["dst"]).try_into().unwrap();
            v2::Addresses::Unix(v2::Unix { source: s, destination: d })
        }
    }
}

pub fn payload_json(p: &Payload) -> Value {
    match p {
        Payload::Int { ty, neg, mag } => json!({"ty": ty, "neg": neg, "mag": mag}),
        Payload::Slice(b) => json!({"ty": "slice", "v": rl(b)}),
        Payload::Addr(a) => json!({"ty": "addr", "a": v2_addr(a)}),
        Payload::Tlv(k, b) => json!({"ty": "tlv", "t": kind_json(k), "v": rl(b)}),
        Payload::Pair(k, b) => json!({"ty": "pair", "t": kind_json(k), "v": rl(b)}),
        Payload::Type(t) => json!({"ty": "type", "name": type_name(*t)}),
        Payload::Tlvs(b, 0) => json!({"ty": "tlvs", "v": rl(b)}),
        Payload::Tlvs(b, adv) => json!({"ty": "tlvs", "v": rl(b), "adv": adv}),
        Payload::Raw(b) => json!({"ty": "raw", "v": rl(b)}),
        Payload::Custom(b, ret, nest) => json!({"ty": "custom", "v": rl(b), "ret": ret, "nest": nest}),
    }
}

pub fn payload_from(v: &Value) -> Payload {
    match v["ty"].as_str().unwrap() {
        "slice" => Payload::Slice(unrl(&v["v"])),
        "addr" => Payload::Addr(addr_from(&v["a"])),
        "tlv" => Payload::Tlv(kind_from(&v["t"]), unrl(&v["v"])),
        "pair" => Payload::Pair(kind_from(&v["t"]), unrl(&v["v"])),
        "type" => Payload::Type(type_from(v["name"].as_str().unwrap())),
        "tlvs" => Payload::Tlvs(unrl(&v["v"]), v.get("adv").and_then(|a| a.as_u64()).unwrap_or(0) as usize),
        "raw" => Payload::Raw(unrl(&v["v"])),
        "custom" => Payload::Custom(unrl(&v["v"]), v["ret"].as_u64().unwrap_or(0) as usize, v["nest"].as_u64().unwrap_or(0) as u8),
        ty => Payload::Int { ty: ty.to_string(), neg: v["neg"].as_bool().unwrap(), mag: unflat(&v["mag"]) },
    }
}

fn tr_name(p: v2::Protocol) -> &'static str {
    match p {
        v2::Protocol::Unspecified => "Unspecified",
        v2::Protocol::Stream => "Stream",
        v2::Protocol::Datagram => "Datagram",
        _ => "Other",
    }
}

fn tr_from(s: &str) -> v2::Protocol {
    match s {
        "Unspecified" => v2::Protocol::Unspecified,
        "Stream" => v2::Protocol::Stream,
        _ => v2::Protocol::Datagram,
    }
}

pub fn op_json(op: &Op) -> Value {
    match op {
        Op::New { vc, afp, bitor } => json!({"op": "BNew", "vc": vc, "afp": afp, "bitor": bitor}),
        Op::With { vc, tr, addr, bitor } => json!({"op": "BWith", "vc": vc, "tr": tr_name(*tr), "a": v2_addr(addr), "bitor": bitor}),
        Op::Reserve(n) => json!({"op": "BReserve", "n": n}),
        Op::SetLen(v) => json!({"op": "BSetLen", "v": v.map(|x| x as i64).unwrap_or(-1)}),
        Op::Write(p) => json!({"op": "BWrite", "p": payload_json(p)}),
        Op::Writes(ps, lazy) => json!({"op": "BWrites", "ps": ps.iter().map(payload_json).collect::<Vec<_>>(), "lazy": lazy}),
        Op::WritesRep(runs, lazy, each) => json!({"op": "BWritesRep", "runs": runs.iter().map(|(p, n)| json!({"p": payload_json(p), "n": n})).collect::<Vec<_>>(), "lazy": lazy, "each": each}),
        Op::WriteTlv(k, b) => json!({"op": "BTlv", "t": kind_json(k), "v": rl(b)}),
        Op::Build => json!({"op": "BBuild"}),
    }
}

pub fn op_from(v: &Value) -> Op {
    match v["op"].as_str().unwrap() {
        "BNew" => Op::New { vc: v["vc"].as_u64().unwrap() as u8, afp: v["afp"].as_u64().unwrap() as u8, bitor: bitor_from(&v["bitor"]) },
        "BWith" => Op::With { vc: v["vc"].as_u64().unwrap() as u8, tr: tr_from(v["tr"].as_str().unwrap()), addr: addr_from(&v["a"]), bitor: bitor_from(&v["bitor"]) },
        "BReserve" => Op::Reserve(v["n"].as_u64().unwrap() as usize),
        "BSetLen" => Op::SetLen(match v["v"].as_i64().unwrap() { x if x < 0 => None, x => Some(x as u16) }),
        "BWrite" => Op::Write(payload_from(&v["p"])),
        "BWrites" => Op::Writes(v["ps"].as_array().unwrap().iter().map(payload_from).collect(), v["lazy"].as_bool().unwrap_or(false)),
        "BWritesRep" => Op::WritesRep(
            v["runs"].as_array().unwrap().iter().map(|r| (payload_from(&r["p"]), r["n"].as_u64().unwrap() as usize)).collect(),
            v["lazy"].as_bool().unwrap_or(false),
            v["each"].as_bool().unwrap_or(false),
        ),
        "BTlv" => Op::WriteTlv(kind_from(&v["t"]), unrl(&v["v"])),
        _ => Op::Build,
    }
}

// ---- executing values ------------------------------------------------------------------------

fn int_u128(mag: &[u8]) -> u128 {
    mag.iter().fold(0u128, |a, b| (a << 8) | (*b as u128))
}

fn int_i128(neg: bool, mag: &[u8]) -> i128 {
    let m = int_u128(mag) as i128;
    if neg { m.wrapping_neg() } else { m }
}

/// Calls `f` with the payload as a `&dyn WriteToHeader` of its concrete Rust type.
fn with_dyn<R>(p: &Payload, f: &mut dyn FnMut(&dyn WriteToHeader) -> R) -> R {
    match p {
        Payload::Int { ty, neg, mag } => match ty.as_str() {
            "u8" => f(&(int_u128(mag) as u8)),
            "u16" => f(&(int_u128(mag) as u16)),
            "u32" => f(&(int_u128(mag) as u32)),
            "u64" => f(&(int_u128(mag) as u64)),
            "u128" => f(&int_u128(mag)),
            "usize" => f(&(int_u128(mag) as usize)),
            "i8" => f(&(int_i128(*neg, mag) as i8)),
            "i16" => f(&(int_i128(*neg, mag) as i16)),
            "i32" => f(&(int_i128(*neg, mag) as i32)),
            "i64" => f(&(int_i128(*neg, mag) as i64)),
            "i128" => f(&int_i128(*neg, mag)),
            "isize" => f(&(int_i128(*neg, mag) as isize)),
            other => panic!("unknown integer type {}", other),
        },
        Payload::Slice(b) => f(&b.as_slice()),
        Payload::Addr(a) => f(a),
        Payload::Tlv(k, b) => match k {
            Kind::Raw(c) => f(&TypeLengthValue::new(*c, b.as_slice())),
            Kind::Named(t) => f(&TypeLengthValue::new(*t, b.as_slice())),
        },
        Payload::Pair(k, b) => match k {
            Kind::Raw(c) => f(&(*c, b.as_slice())),
            Kind::Named(t) => f(&(*t, b.as_slice())),
        },
        Payload::Type(t) => f(t),
        Payload::Tlvs(b, adv) => f(&advanced(b, *adv)),
        Payload::Raw(b) => f(&RawWrite(b.as_slice())),
        Payload::Custom(b, ret, nest) => f(&CustomWrite(b.as_slice(), *ret, *nest)),
    }
}

/// A TLV section whose cursor has been advanced `adv` times (it is still the same section).
fn advanced(bytes: &[u8], adv: usize) -> TypeLengthValues<'_> {
    let mut tlvs = TypeLengthValues::from(bytes);
    for _ in 0..adv {
        let _ = tlvs.next();
    }
    tlvs
}

fn write_one(b: Builder, p: &Payload) -> io::Result<Builder> {
    // write_payload takes the value by its own type; go through each concrete type (not dyn)
    match p {
        Payload::Int { ty, neg, mag } => match ty.as_str() {
            "u8" => b.write_payload(int_u128(mag) as u8),
            "u16" => b.write_payload(int_u128(mag) as u16),
            "u32" => b.write_payload(int_u128(mag) as u32),
            "u64" => b.write_payload(int_u128(mag) as u64),
            "u128" => b.write_payload(int_u128(mag)),
            "usize" => b.write_payload(int_u128(mag) as usize),
            "i8" => b.write_payload(int_i128(*neg, mag) as i8),
            "i16" => b.write_payload(int_i128(*neg, mag) as i16),
            "i32" => b.write_payload(int_i128(*neg, mag) as i32),
            "i64" => b.write_payload(int_i128(*neg, mag) as i64),
            "i128" => b.write_payload(int_i128(*neg, mag)),
            "isize" => b.write_payload(int_i128(*neg, mag) as isize),
            other => panic!("unknown integer type {}", other),
        },
        Payload::Slice(s) => b.write_payload(s.as_slice()),
        Payload::Addr(a) => b.write_payload(*a),
        Payload::Tlv(k, v) => match k {
            Kind::Raw(c) => b.write_payload(TypeLengthValue::new(*c, v.as_slice())),
            Kind::Named(t) => b.write_payload(TypeLengthValue::new(*t, v.as_slice())),
        },
        Payload::Pair(k, v) => match k {
            Kind::Raw(c) => b.write_payload((*c, v.as_slice())),
            Kind::Named(t) => b.write_payload((*t, v.as_slice())),
        },
        Payload::Type(t) => b.write_payload(*t),
        Payload::Tlvs(v, adv) => b.write_payload(advanced(v, *adv)),
        Payload::Raw(v) => b.write_payload(RawWrite(v.as_slice())),
        Payload::Custom(v, ret, nest) => b.write_payload(CustomWrite(v.as_slice(), *ret, *nest)),
    }
}

fn write_many(b: Builder, ps: &[Payload], lazy: bool) -> io::Result<Builder> {
    // a heterogeneous batch: each element as a boxed closure target is awkward, so materialise
    // the concrete values and hand out `&dyn WriteToHeader` (covered by the `&T` impl).
    enum Held<'a> {
        U8(u8), U16(u16), U32(u32), U64(u64), U128(u128), Usize(usize),
        I8(i8), I16(i16), I32(i32), I64(i64), I128(i128), Isize(isize),
        Slice(&'a [u8]), Addr(v2::Addresses), Tlv(TypeLengthValue<'a>),
        PairRaw((u8, &'a [u8])), PairNamed((Type, &'a [u8])), Type(Type), Tlvs(TypeLengthValues<'a>),
        Raw(RawWrite<'a>), Custom(CustomWrite<'a>),
    }
    let held: Vec<Held> = ps
        .iter()
        .map(|p| match p {
            Payload::Int { ty, neg, mag } => match ty.as_str() {
                "u8" => Held::U8(int_u128(mag) as u8),
                "u16" => Held::U16(int_u128(mag) as u16),
                "u32" => Held::U32(int_u128(mag) as u32),
                "u64" => Held::U64(int_u128(mag) as u64),
                "u128" => Held::U128(int_u128(mag)),
                "usize" => Held::Usize(int_u128(mag) as usize),
                "i8" => Held::I8(int_i128(*neg, mag) as i8),
                "i16" => Held::I16(int_i128(*neg, mag) as i16),
                "i32" => Held::I32(int_i128(*neg, mag) as i32),
                "i64" => Held::I64(int_i128(*neg, mag) as i64),
                "i128" => Held::I128(int_i128(*neg, mag)),
                _ => Held::Isize(int_i128(*neg, mag) as isize),
            },
            Payload::Slice(s) => Held::Slice(s.as_slice()),
            Payload::Addr(a) => Held::Addr(*a),
            Payload::Tlv(k, v) => Held::Tlv(match k {
                Kind::Raw(c) => TypeLengthValue::new(*c, v.as_slice()),
                Kind::Named(t) => TypeLengthValue::new(*t, v.as_slice()),
            }),
            Payload::Pair(k, v) => match k {
                Kind::Raw(c) => Held::PairRaw((*c, v.as_slice())),
                Kind::Named(t) => Held::PairNamed((*t, v.as_slice())),
            },
            Payload::Type(t) => Held::Type(*t),
            Payload::Tlvs(v, adv) => Held::Tlvs(advanced(v, *adv)),
            Payload::Raw(v) => Held::Raw(RawWrite(v.as_slice())),
            Payload::Custom(v, ret, nest) => Held::Custom(CustomWrite(v.as_slice(), *ret, *nest)),
        })
        .collect();
    let refs: Vec<&dyn WriteToHeader> = held
        .iter()
        .map(|h| -> &dyn WriteToHeader {
            match h {
                Held::U8(x) => x, Held::U16(x) => x, Held::U32(x) => x, Held::U64(x) => x,
                Held::U128(x) => x, Held::Usize(x) => x, Held::I8(x) => x, Held::I16(x) => x,
                Held::I32(x) => x, Held::I64(x) => x, Held::I128(x) => x, Held::Isize(x) => x,
                Held::Slice(x) => x, Held::Addr(x) => x, Held::Tlv(x) => x, Held::PairRaw(x) => x,
                Held::PairNamed(x) => x, Held::Type(x) => x, Held::Tlvs(x) => x, Held::Raw(x) => x, Held::Custom(x) => x,
            }
        })
        .collect();
    if lazy {
        // an adaptor with size_hint (0, Some(n)): the batch is the same batch
        b.write_payloads(refs.into_iter().filter(|_| true))
    } else {
        b.write_payloads(refs)
    }
}

/// The version-command byte through the typed API, when the code is a registered one.
fn bitor_from(v: &Value) -> u8 {
    match v {
        Value::Bool(true) => 1,
        Value::Number(n) => n.as_u64().unwrap_or(0) as u8,
        _ => 0,
    }
}

fn typed_vc(vc: u8, order: u8) -> Option<u8> {
    let cmd = match vc {
        0x20 => v2::Command::Local,
        0x21 => v2::Command::Proxy,
        _ => return None,
    };
    Some(if order == 2 { cmd | v2::Version::Two } else { v2::Version::Two | cmd })
}

/// The family-transport byte through the typed API, when both codes are registered ones.
fn typed_afp(afp: u8, order: u8) -> Option<u8> {
    let fam = match afp >> 4 {
        0 => v2::AddressFamily::Unspecified,
        1 => v2::AddressFamily::IPv4,
        2 => v2::AddressFamily::IPv6,
        3 => v2::AddressFamily::Unix,
        _ => return None,
    };
    let tr = match afp & 0x0F {
        0 => v2::Protocol::Unspecified,
        1 => v2::Protocol::Stream,
        2 => v2::Protocol::Datagram,
        _ => return None,
    };
    Some(if order == 2 { tr | fam } else { fam | tr })
}

fn construct(op: &Op) -> Builder {
    match op {
        Op::New { vc, afp, bitor } => {
            if *bitor != 0 {
                Builder::new(typed_vc(*vc, *bitor).unwrap_or(*vc), typed_afp(*afp, *bitor).unwrap_or(*afp))
            } else {
                Builder::new(*vc, *afp)
            }
        }
        Op::With { vc, tr, addr, bitor } => {
            Builder::with_addresses(if *bitor != 0 { typed_vc(*vc, *bitor).unwrap_or(*vc) } else { *vc }, *tr, *addr)
        }
        other => panic!("session must start with a constructor, got {:?}", other),
    }
}

fn apply(b: Builder, op: &Op) -> io::Result<Builder> {
    match op {
        Op::Reserve(n) => Ok(b.reserve_capacity(*n)),
        Op::SetLen(v) => Ok(b.set_length(*v)),
        Op::Write(p) => write_one(b, p),
        Op::Writes(ps, lazy) => write_many(b, ps, *lazy),
        Op::WritesRep(runs, lazy, each) => {
            if *each {
                let mut b = b;
                for (p, n) in runs {
                    for _ in 0..*n {
                        b = write_one(b, p)?;
                    }
                }
                return Ok(b);
            }
            let mut ps: Vec<Payload> = Vec::new();
            for (p, n) in runs {
                for _ in 0..*n {
                    ps.push(p.clone());
                }
            }
            write_many(b, &ps, *lazy)
        }
        Op::WriteTlv(k, v) => match k {
            Kind::Raw(c) => b.write_tlv(*c, v.as_slice()),
            Kind::Named(t) => b.write_tlv(*t, v.as_slice()),
        },
        Op::New { .. } | Op::With { .. } | Op::Build => unreachable!(),
    }
}

fn ek(e: &io::Error) -> String {
    format!("{:?}", e.kind())
}

/// What `build()` returns after the calls `ops` (constructor first, no Build among them).
fn build_prefix(ops: &[Op]) -> Value {
    let r = guard(|| {
        let mut b = construct(&ops[0]);
        for op in &ops[1..] {
            match apply(b, op) {
                Ok(nb) => b = nb,
                Err(e) => return json!({"k": "operr", "ek": ek(&e)}),
            }
        }
        match b.build() {
            Ok(bytes) => json!({"k": "ok", "v": rl(&bytes)}),
            Err(e) => json!({"k": "err", "ek": ek(&e)}),
        }
    });
    r.unwrap_or_else(|p| panic_value(&p))
}

pub fn run_ops(sid: &str, tag: &Value, ops: &[Op], out: &mut dyn Write) -> usize {
    run_ops_in(sid, tag, ops, out, true)
}

/// For long call sequences: ONE builder is driven through all the calls; each call's own result is
/// logged, the build only at the end (`built` is "na" on the way).
pub fn run_ops_final_only(sid: &str, tag: &Value, ops: &[Op], out: &mut dyn Write) -> usize {
    let mut n = 1;
    let plan: Vec<Value> = ops.iter().map(op_json).collect();
    writeln!(out, "{}", json!({"fam": "builder", "sid": sid, "op": "BReset", "tag": tag, "plan": plan})).unwrap();
    let mut b: Option<Builder> = None;
    for (i, op) in ops.iter().enumerate() {
        let mut ev = op_json(op);
        ev["sid"] = json!(sid);
        if let Op::Build = op {
            let built = match b.take() {
                Some(builder) => guard(|| match builder.build() {
                    Ok(bytes) => json!({"k": "ok", "v": rl(&bytes)}),
                    Err(e) => json!({"k": "err", "ek": ek(&e)}),
                })
                .unwrap_or_else(|p| panic_value(&p)),
                None => json!({"k": "na"}),
            };
            ev["r"] = json!(match built["k"].as_str() { Some("ok") => "ok", Some("panic") => "panic", _ => "err" });
            ev["built"] = built;
            writeln!(out, "{}", ev).unwrap();
            return n + 1;
        }
        let r = if i == 0 {
            guard(|| Ok(construct(op)))
        } else {
            let cur = b.take().expect("a live builder");
            guard(|| apply(cur, op))
        };
        ev["built"] = json!({"k": "na"});
        let failed = match r {
            Ok(Ok(nb)) => { b = Some(nb); ev["r"] = json!("ok"); false }
            Ok(Err(e)) => { ev["r"] = json!("err"); ev["ek"] = json!(ek(&e)); true }
            Err(p) => { ev["r"] = json!("panic"); ev["msg"] = json!(p); true }
        };
        writeln!(out, "{}", ev).unwrap();
        n += 1;
        if failed {
            return n;
        }
    }
    n
}

/// `opens` = this call sequence opens a new session (otherwise it continues the current one, so
/// that the orchestrator keeps related call sequences together and in order).
pub fn run_ops_in(sid: &str, tag: &Value, ops: &[Op], out: &mut dyn Write, opens: bool) -> usize {
    let mut n = 0;
    // the whole planned call sequence goes along (a failing call ends the execution, but a replay
    // must run the same sequence)
    let plan: Vec<Value> = ops.iter().map(op_json).collect();
    if opens {
        writeln!(out, "{}", json!({"fam": "builder", "sid": sid, "op": "BReset", "tag": tag, "plan": plan})).unwrap();
    } else {
        writeln!(out, "{}", json!({"sid": sid, "op": "BReset", "tag": tag, "plan": plan})).unwrap();
    }
    n += 1;
    let mut done: Vec<Op> = Vec::new();
    for op in ops {
        let mut ev = op_json(op);
        ev["sid"] = json!(sid);
        if let Op::Build = op {
            let built = build_prefix(&done);
            ev["r"] = json!(match built["k"].as_str() { Some("ok") => "ok", Some("panic") => "panic", _ => "err" });
            ev["built"] = built;
            writeln!(out, "{}", ev).unwrap();
            n += 1;
            break;
        }
        done.push(op.clone());
        // the call's own result: run the whole prefix, look at the last call
        let res = guard(|| {
            let mut b = construct(&done[0]);
            let last = done.len() - 1;
            for (i, o) in done.iter().enumerate().skip(1) {
                match apply(b, o) {
                    Ok(nb) => b = nb,
                    Err(e) => return (i == last, Some(ek(&e))),
                }
            }
            (true, None)
        });
        let failed = match res {
            Ok((_, None)) => {
                ev["r"] = json!("ok");
                false
            }
            Ok((_, Some(kind))) => {
                ev["r"] = json!("err");
                ev["ek"] = json!(kind);
                true
            }
            Err(p) => {
                ev["r"] = json!("panic");
                ev["msg"] = json!(p);
                true
            }
        };
        ev["built"] = if failed { json!({"k": "na"}) } else { build_prefix(&done) };
        writeln!(out, "{}", ev).unwrap();
        n += 1;
        if failed {
            // the sequence as a whole produced no header: say so where its build would have been
            // (rebuild and paired sessions judge the outcome of the whole sequence)
            if ops.iter().any(|o| matches!(o, Op::Build)) {
                writeln!(out, "{}", json!({"sid": sid, "op": "BBuild", "r": "err", "built": {"k": "err", "ek": "a call before build failed"}})).unwrap();
                n += 1;
            }
            break;
        }
    }
    n
}

pub fn run_builder_scenario(v: &Value, idx: usize, out: &mut dyn Write) -> usize {
    let sid = v["sid"].as_str().map(|s| s.to_string()).unwrap_or(format!("scn-{}", idx));
    let default_tag = json!({"g": "scenario"});
    if let Some(parts) = v.get("parts").and_then(|p| p.as_array()) {
        let mut n = 0;
        for (i, part) in parts.iter().enumerate() {
            let ops: Vec<Op> = part["ops"].as_array().unwrap().iter().map(op_from).collect();
            n += run_ops_in(&sid, part.get("tag").unwrap_or(&default_tag), &ops, out, i == 0);
            maybe_parse_back(&sid, part.get("tag").unwrap_or(&default_tag), &ops, out, &mut n);
        }
        return n;
    }
    let ops: Vec<Op> = v["ops"].as_array().unwrap().iter().map(op_from).collect();
    let tag = v.get("tag").unwrap_or(&default_tag);
    let mut n = run_ops(&sid, tag, &ops, out);
    maybe_parse_back(&sid, tag, &ops, out, &mut n);
    n
}

/// Sessions tagged `bwire` are followed by a parse of what they built.
/// Contents TLV values really have: protocol names, host names, paths, checksums, identifiers.
pub fn realistic_values() -> Vec<Vec<u8>> {
    let mut v: Vec<Vec<u8>> = vec![
        b"h2".to_vec(), b"http/1.1".to_vec(), b"\x02h2\x08http/1.1".to_vec(),
        b"example.org".to_vec(), b"xn--bcher-kva.example".to_vec(), "b\u{fc}cher.example".as_bytes().to_vec(), b"a/b".to_vec(),
        b"blue".to_vec(), b"/run/netns/blue".to_vec(), b"../../etc/passwd".to_vec(), b"a\0b".to_vec(), b"name with spaces".to_vec(),
        vec![0xde, 0xad, 0xbe, 0xef], vec![0, 0, 0, 0], b"TLSv1.3".to_vec(), b"ECDHE-RSA-AES128-GCM-SHA256".to_vec(), b"RSA-SHA256".to_vec(),
        b"\x01vpce-08d2bf15fac5001c9".to_vec(), vec![1, 0x78, 0x56, 0x34, 0x12],
        b"\r\n".to_vec(), b"PROXY".to_vec(), b"%00%2f".to_vec(), b"${jndi:x}".to_vec(), b"<script>".to_vec(),
    ];
    // the textual ones again with what normalising code strips or folds: a trailing / leading dot,
    // white space, NUL, a slash, a line end, upper case
    let texts: Vec<Vec<u8>> = v.iter().filter(|x| x.len() >= 2 && x.iter().all(|b| (0x20..0x7f).contains(b))).cloned().collect();
    for t in texts {
        let s = String::from_utf8_lossy(&t).to_string();
        for d in [format!("{}.", s), format!(".{}", s), format!("{} ", s), format!(" {}", s), format!("{}\0", s), format!("{}/", s), format!("{}\r\n", s), s.to_uppercase()] {
            v.push(d.into_bytes());
        }
    }
    v.push((0..16u8).collect());
    v.push(vec![0x55; 128]);
    v.push(vec![0x55; 129]);
    v.push(ssl_value(0));
    v.push(ssl_value(17));
    v
}

/// The value of a PP2_TYPE_SSL TLV as HAProxy emits it: client flags, a 4-byte verify result and
/// nested sub-TLVs (version, CN, cipher, signature algorithm, key algorithm) - every flag value,
/// with and without each sub-TLV, also nested areas that are cut short.
pub fn ssl_value(i: usize) -> Vec<u8> {
    let client = (i % 8) as u8;
    let mut v = vec![client, 0, 0, 0, (i / 8 % 2) as u8];
    let subs: [(u8, &[u8]); 5] = [(0x21, b"TLSv1.3"), (0x22, b"example.org"), (0x23, b"TLS_AES_256_GCM_SHA384"), (0x24, b"RSA-SHA256"), (0x25, b"RSA2048")];
    let mask = (i / 16) % 32;
    for (k, (t, val)) in subs.iter().enumerate() {
        if mask & (1 << k) != 0 || (i / 16) % 7 == 0 {
            v.push(*t);
            v.extend_from_slice(&(val.len() as u16).to_be_bytes());
            v.extend_from_slice(val);
        }
    }
    match (i / 512) % 4 {
        1 => { v.pop(); }
        2 => v.extend_from_slice(&[0x21, 0, 9, b'x']),
        _ => {}
    }
    v
}

/// TLV lists with structure: neighbouring registered types, repeated types, NoOp padding between
/// items, many tiny items, empty values, a list that fills the payload exactly.
pub fn structured_tlv_list(i: usize, budget: usize, rng: &mut Rng) -> Vec<(u8, Vec<u8>)> {
    let reg: Vec<u8> = TYPES.iter().map(|(t, _)| u8::from(*t)).collect();
    let mut list: Vec<(u8, Vec<u8>)> = Vec::new();
    match i % 8 {
        0 => { let (a, b) = (reg[(i / 8) % 12], reg[(i / 96) % 12]); list.push((a, vec![1])); list.push((b, vec![])); list.push((a, vec![2, 3])); }
        1 => { let t = reg[(i / 8) % 12]; for k in 0..4 { list.push((t, vec![k as u8; k])); } }
        2 => { for k in 0..5 { list.push((reg[(i / 8 + k) % 12], vec![0xA0 + k as u8; 1 + k])); list.push((0x04, vec![0; k])); } }
        3 => { let n = *rng.pick(&[40usize, 120, 300]); for k in 0..n { list.push(((k % 251) as u8, vec![])); } }
        4 => { let n = *rng.pick(&[30usize, 100, 250]); for k in 0..n { list.push((reg[k % 12], vec![k as u8])); } }
        5 => { list.push((0x04, vec![])); list.push((0x20, ssl_value(i / 8))); list.push((0x04, vec![0; 3])); list.push((0x20, ssl_value(i / 8 + 5))); }
        6 if (i / 8) % 3 == 1 => {
            // fills the budget exactly; the LAST item(s) have an empty value
            let empties = 1 + (i / 24) % 2;
            list.push((reg[(i / 8) % 12], vec![0x6b; budget - 3 - 3 * empties]));
            for k in 0..empties { list.push((reg[(k + 3) % 12], vec![])); }
        }
        6 if (i / 8) % 3 == 2 => {
            // ... or a one-byte value
            list.push((reg[(i / 8) % 12], vec![0x6b; budget - 3 - 4]));
            list.push((0x04, vec![9]));
        }
        6 => {
            // fills the budget exactly with several items
            let mut left = budget;
            let mut k = 0u8;
            while left >= 3 {
                let take = (left - 3).min(*rng.pick(&[0usize, 1, 7, 300, 20000]));
                let take = if left - 3 - take < 3 && left - 3 - take > 0 { left - 3 } else { take };
                list.push((reg[k as usize % 12], vec![k; take]));
                left -= 3 + take;
                k = k.wrapping_add(1);
            }
        }
        _ => { for k in 0..3 { list.push((0xE0 + k as u8, rng.bytes(k * 5))); list.push((0x00, vec![])); }
               // vendor TLVs: AWS VPC endpoint id (0xEA, subtype 1), Azure link id (0xEE, subtype 1), a CRC32C that is NOT the checksum
               list.push((0xEA, b"\x01vpce-08d2bf15fac5001c9".to_vec())); list.push((0xEE, vec![1, 0x78, 0x56, 0x34, 0x12])); list.push((0x03, vec![0xde, 0xad, 0xbe, 0xef])); }
    }
    // never beyond the budget
    let mut used = 0usize;
    list.retain(|(_, v)| { if used + 3 + v.len() <= budget { used += 3 + v.len(); true } else { false } });
    list
}

fn maybe_parse_back(sid: &str, tag: &Value, ops: &[Op], out: &mut dyn Write, n: &mut usize) {
    if tag["g"] != "bwire" || ops.is_empty() {
        return;
    }
    let done: Vec<Op> = ops.iter().filter(|o| !matches!(o, Op::Build)).cloned().collect();
    let built = build_prefix(&done);
    if built["k"] == "ok" {
        let bytes = unrl(&built["v"]);
        writeln!(out, "{}", json!({"sid": sid, "op": "ParseBack", "input": rl(&bytes), "obs": v2_bytes(&bytes, true)})).unwrap();
        *n += 1;
    }
}

// ---- writer family ---------------------------------------------------------------------------

pub fn run_writer(sid: &str, tag: &Value, pre: &[u8], ps: &[Payload], out: &mut dyn Write) -> usize {
    let mut n = 0;
    writeln!(out, "{}", json!({"fam": "writer", "sid": sid, "op": "WFrom", "tag": tag, "pre": rl(pre)})).unwrap();
    n += 1;
    let mut bytes = pre.to_vec();
    for p in ps {
        let tb = guard(|| {
            with_dyn(p, &mut |d| match d.to_bytes() {
                Ok(b) => json!({"k": "ok", "v": rl(&b)}),
                Err(e) => json!({"k": "err", "ek": ek(&e)}),
            })
        })
        .unwrap_or_else(|m| panic_value(&m));
        let taken = std::mem::take(&mut bytes);
        let backup = taken.clone();
        let r = guard(|| {
            let mut w = Writer::from(taken);
            let r = with_dyn(p, &mut |d| d.write_to(&mut w));
            (r, w.finish())
        });
        let ev = match r {
            Ok((Ok(count), fin)) => {
                bytes = fin;
                json!({"sid": sid, "op": "WWrite", "p": payload_json(p), "r": {"k": "ok", "n": count}, "fin": rl(&bytes), "tb": tb})
            }
            Ok((Err(e), fin)) => {
                bytes = fin;
                json!({"sid": sid, "op": "WWrite", "p": payload_json(p), "r": {"k": "err", "ek": ek(&e)}, "fin": rl(&bytes), "tb": tb})
            }
            Err(m) => {
                bytes = backup;
                json!({"sid": sid, "op": "WWrite", "p": payload_json(p), "r": panic_value(&m), "fin": rl(&bytes), "tb": tb})
            }
        };
        writeln!(out, "{}", ev).unwrap();
        n += 1;
    }
    n
}

/// Values of 4 GiB and more (allocated zeroed, never touched unless the crate copies them): a byte
/// slice, a TLV and a (type, bytes) pair whose length does not fit into 32 bits, written into a
/// small prefilled writer and turned into bytes directly. The specification is told about the
/// first GiB of the value ("more than 65535 bytes" is all that matters); what comes back is
/// logged up to its first 70000 bytes.
pub fn run_writer_huge(sid: &str, tag: &Value, which: usize, len: usize, out: &mut dyn Write) -> usize {
    let pre = vec![0xAAu8, 0xBB, 0xCC];
    writeln!(out, "{}", json!({"fam": "writer", "sid": sid, "op": "WFrom", "tag": tag, "pre": rl(&pre)})).unwrap();
    let big = vec![0u8; len];
    let shown = json!([[0, 1u64 << 30]]);
    let p = match which % 3 {
        0 => json!({"ty": "slice", "v": shown, "real_len_gib": len >> 30}),
        1 => json!({"ty": "tlv", "t": {"ty": "raw", "code": 4}, "v": shown, "real_len_gib": len >> 30}),
        _ => json!({"ty": "pair", "t": {"ty": "named", "name": "NoOp"}, "v": shown, "real_len_gib": len >> 30}),
    };
    let cap = |b: &[u8]| rl(&b[..b.len().min(70000)]);
    crate::util::set_extra_budget_ms(120_000);
    let tb = guard(|| {
        let r = match which % 3 {
            0 => big.as_slice().to_bytes(),
            1 => TypeLengthValue::new(4u8, big.as_slice()).to_bytes(),
            _ => (Type::NoOp, big.as_slice()).to_bytes(),
        };
        match r {
            Ok(b) => json!({"k": "ok", "v": cap(&b)}),
            Err(e) => json!({"k": "err", "ek": ek(&e)}),
        }
    })
    .unwrap_or_else(|m| panic_value(&m));
    let r = guard(|| {
        let mut w = Writer::from(pre.clone());
        let r = match which % 3 {
            0 => big.as_slice().write_to(&mut w),
            1 => TypeLengthValue::new(4u8, big.as_slice()).write_to(&mut w),
            _ => (Type::NoOp, big.as_slice()).write_to(&mut w),
        };
        (r, w.finish())
    });
    crate::util::set_extra_budget_ms(0);
    let ev = match r {
        Ok((Ok(count), fin)) => json!({"sid": sid, "op": "WWrite", "p": p, "r": {"k": "ok", "n": count.min(i32::MAX as usize)}, "fin": cap(&fin), "tb": tb}),
        Ok((Err(e), fin)) => json!({"sid": sid, "op": "WWrite", "p": p, "r": {"k": "err", "ek": ek(&e)}, "fin": cap(&fin), "tb": tb}),
        Err(m) => json!({"sid": sid, "op": "WWrite", "p": p, "r": panic_value(&m), "fin": rl(&pre), "tb": tb}),
    };
    writeln!(out, "{}", ev).unwrap();
    2
}

/// One writer created with `Writer::default()` and kept across all writes (never re-wrapped).
pub fn run_writer_persistent(sid: &str, tag: &Value, ps: &[Payload], out: &mut dyn Write) -> usize {
    let mut n = 0;
    writeln!(out, "{}", json!({"fam": "writer", "sid": sid, "op": "WDefault", "tag": tag})).unwrap();
    n += 1;
    let mut w = Some(Writer::default());
    for p in ps {
        let mut writer = w.take().unwrap();
        let r = guard(|| {
            let r = with_dyn(p, &mut |d| d.write_to(&mut writer));
            (r, writer)
        });
        match r {
            Ok((Ok(count), writer)) => {
                w = Some(writer);
                writeln!(out, "{}", json!({"sid": sid, "op": "WWriteP", "p": payload_json(p), "r": {"k": "ok", "n": count}})).unwrap();
            }
            Ok((Err(e), writer)) => {
                w = Some(writer);
                writeln!(out, "{}", json!({"sid": sid, "op": "WWriteP", "p": payload_json(p), "r": {"k": "err", "ek": ek(&e)}})).unwrap();
            }
            Err(m) => {
                writeln!(out, "{}", json!({"sid": sid, "op": "WWriteP", "p": payload_json(p), "r": panic_value(&m)})).unwrap();
                n += 1;
                return n;
            }
        }
        n += 1;
    }
    let fin = w.take().unwrap().finish();
    writeln!(out, "{}", json!({"sid": sid, "op": "WFinish", "fin": rl(&fin)})).unwrap();
    n + 1
}

pub fn run_writer_scenario(v: &Value, idx: usize, out: &mut dyn Write) -> usize {
    let sid = v["sid"].as_str().map(|s| s.to_string()).unwrap_or(format!("scn-{}", idx));
    let pre = unrl(&v["pre"]);
    let ps: Vec<Payload> = v["ps"].as_array().unwrap().iter().map(payload_from).collect();
    run_writer(&sid, v.get("tag").unwrap_or(&json!({"g": "scenario"})), &pre, &ps, out)
}

// ---- input generation ------------------------------------------------------------------------

pub fn random_kind(rng: &mut Rng) -> Kind {
    if rng.chance(1, 2) {
        Kind::Named(TYPES[rng.below(12) as usize].0)
    } else {
        Kind::Raw(rng.next() as u8)
    }
}

pub fn random_addr(rng: &mut Rng, fam: u64) -> v2::Addresses {
    match fam {
        0 => v2::Addresses::Unspecified,
        1 => {
            let b = rng.bytes(12);
            v2::Addresses::IPv4(v2::IPv4::new([b[0], b[1], b[2], b[3]], [b[4], b[5], b[6], b[7]], u16::from_be_bytes([b[8], b[9]]), u16::from_be_bytes([b[10], b[11]])))
        }
        2 => {
            let mut b = rng.bytes(36);
            for off in [0usize, 16] {
                match rng.below(8) {
                    0 | 1 => { for k in 0..10 { b[off + k] = 0; } b[off + 10] = 0xff; b[off + 11] = 0xff; }
                    2 => { for k in 0..16 { b[off + k] = 0; } }
                    _ => {}
                }
            }
            if rng.chance(1, 10) { let (l, r) = b.split_at_mut(16); r[..16].copy_from_slice(l); }
            if rng.chance(1, 5) {
                let prefixes: [&[u8]; 8] = [&[0xfe, 0x80, 0x00, 0x04], &[0xfe, 0x80], &[0xff, 0x02], &[0x20, 0x02], &[0x00, 0x64, 0xff, 0x9b], &[0xfc, 0x00], &[0x20, 0x01, 0x0d, 0xb8], &[0xfe, 0xc0]];
                let off = if rng.chance(1, 2) { 0 } else { 16 };
                let p = *rng.pick(&prefixes);
                b[off..off + p.len()].copy_from_slice(p);
            }
            let s: [u8; 16] = b[..16].try_into().unwrap();
            let d: [u8; 16] = b[16..32].try_into().unwrap();
            v2::Addresses::IPv6(v2::IPv6::new(s, d, u16::from_be_bytes([b[32], b[33]]), u16::from_be_bytes([b[34], b[35]])))
        }
        _ if rng.chance(1, 3) => {
            // the two paths drawn independently: unnamed (all zero), full, a short name
            let mut path = |rng: &mut Rng| -> [u8; 108] {
                let mut p = [0u8; 108];
                match rng.below(4) {
                    0 => {}
                    1 => { for b in p.iter_mut() { *b = 0x61 + rng.below(20) as u8; } }
                    2 => { let name = b"/var/run/app.sock"; p[..name.len()].copy_from_slice(name); }
                    // sparse: a name, a long run of zeros, more bytes, zeros, a last byte
                    _ => { p[..6].copy_from_slice(b"/run/a"); p[40] = b'#'; p[41] = b'1'; p[107] = 0x7e; }
                }
                p
            };
            let (s, d) = (path(rng), path(rng));
            v2::Addresses::Unix(v2::Unix::new(s, d))
        }
        _ => {
            let mut s = [0u8; 108];
            let mut d = [0u8; 108];
            let (a, b) = (rng.next() as u8, rng.next() as u8);
            for i in 0..108 {
                s[i] = if i < 12 { a.wrapping_add(i as u8) } else { 0 };
                d[i] = if i < 9 { b.wrapping_add(3 * i as u8) } else { 0xEE };
            }
            v2::Addresses::Unix(v2::Unix::new(s, d))
        }
    }
}

/// Byte strings made of the protocol's own vocabulary: the v2 signature, a whole binary header,
/// a text header line, the signature in the middle of other bytes.
pub fn vocabulary_bytes(rng: &mut Rng) -> Vec<u8> {
    let sig = ppp::v2::PROTOCOL_PREFIX.to_vec();
    match rng.below(5) {
        0 => sig,
        1 => { let mut v = sig; v.extend_from_slice(&[0x21, 0x11, 0, 12, 1, 2, 3, 4, 5, 6, 7, 8, 0, 9, 1, 0]); v }
        2 => b"PROXY TCP4 1.2.3.4 5.6.7.8 9 10\r\n".to_vec(),
        3 => { let mut v = vec![0x41, 0x42]; v.extend_from_slice(&sig); v.push(0x43); v }
        _ => { let mut v = sig; v.truncate(11); v }
    }
}

fn blob(rng: &mut Rng) -> Vec<u8> {
    if rng.chance(1, 9) {
        return vocabulary_bytes(rng);
    }
    if rng.chance(1, 8) {
        let vals = realistic_values();
        return vals[rng.below(vals.len() as u64) as usize].clone();
    }
    let len = match rng.below(12) {
        0 => 0,
        1 => 1,
        2 => 255,
        3 => 256,
        4 => 65535,
        5 => 65536,
        6 => 65532,
        7 => 32768,
        _ => rng.below(12) as usize,
    };
    if len > 300 {
        vec![rng.next() as u8; len]
    } else {
        rng.bytes(len)
    }
}

const INT_TYPES: [(&str, usize, bool); 12] = [
    ("u8", 1, false), ("u16", 2, false), ("u32", 4, false), ("u64", 8, false), ("u128", 16, false), ("usize", 8, false),
    ("i8", 1, true), ("i16", 2, true), ("i32", 4, true), ("i64", 8, true), ("i128", 16, true), ("isize", 8, true),
];

pub fn random_int(rng: &mut Rng) -> Payload {
    let (ty, width, signed) = *rng.pick(&INT_TYPES);
    // magnitude as big-endian bytes of the absolute value; trimmed of leading zeros
    let style = rng.below(5);
    let mut mag: Vec<u8> = match style {
        0 => vec![],                 // 0
        1 => vec![0xff; width],      // max unsigned / to be clamped for signed below
        2 => vec![1],
        _ => rng.bytes(width),
    };
    let mut neg = false;
    if signed {
        neg = rng.chance(1, 2);
        // keep |v| within range: positive max = 0x7f.., negative max magnitude = 0x80 00..
        if !mag.is_empty() && mag.len() == width {
            if style == 1 {
                if neg {
                    mag = vec![0; width];
                    mag[0] = 0x80; // MIN
                } else {
                    mag[0] = 0x7f; // MAX
                }
            } else {
                mag[0] &= 0x7f;
            }
        }
    }
    while mag.first() == Some(&0) {
        mag.remove(0);
    }
    if mag.is_empty() {
        neg = false;
    }
    Payload::Int { ty: ty.to_string(), neg, mag }
}

pub fn random_payload(rng: &mut Rng, allow_big: bool) -> Payload {
    let mut b = blob(rng);
    if !allow_big && b.len() > 300 {
        b.truncate(9);
    }
    match rng.below(10) {
        0 | 1 | 2 => random_int(rng),
        3 => Payload::Slice(b),
        4 => { let f = rng.below(4); Payload::Addr(random_addr(rng, f)) }
        5 => Payload::Tlv(random_kind(rng), b),
        6 => Payload::Pair(random_kind(rng), b),
        7 => Payload::Type(TYPES[rng.below(12) as usize].0),
        8 => {
            let adv = *rng.pick(&[0usize, 0, 1, 2, 9]);
            if rng.chance(1, 2) {
                // a well-formed section of a few small items
                let mut sec = Vec::new();
                for _ in 0..rng.range(1, 3) {
                    let len = rng.below(4) as usize;
                    sec.push(rng.next() as u8);
                    sec.extend_from_slice(&(len as u16).to_be_bytes());
                    sec.extend(rng.bytes(len));
                }
                Payload::Tlvs(sec, adv)
            } else {
                Payload::Tlvs(b, adv)
            }
        }
        _ => Payload::Tlv(random_kind(rng), rng.bytes(3)),
    }
}

fn random_ctor(rng: &mut Rng, valid_only: bool) -> Op {
    let vc = if valid_only || rng.chance(3, 4) { 0x20 | rng.below(2) as u8 } else { rng.next() as u8 };
    if rng.chance(1, 2) {
        let afp = if valid_only || rng.chance(3, 4) { ((rng.below(4) as u8) << 4) | rng.below(3) as u8 } else { rng.next() as u8 };
        Op::New { vc, afp, bitor: rng.below(3) as u8 }
    } else {
        let tr = *rng.pick(&[v2::Protocol::Unspecified, v2::Protocol::Stream, v2::Protocol::Datagram]);
        let fam = rng.below(4);
        Op::With { vc, tr, addr: random_addr(rng, fam), bitor: rng.below(3) as u8 }
    }
}

/// The output of a random builder call sequence (valid and invalid control bytes, explicit
/// lengths smaller / larger than the payload, any payload kinds) - used as parser input.
pub fn random_built(rng: &mut Rng) -> Option<Vec<u8>> {
    let valid = rng.chance(2, 3);
    let mut ops = vec![random_ctor(rng, valid)];
    for _ in 0..rng.below(5) {
        ops.push(match rng.below(6) {
            0 => Op::SetLen(match rng.below(4) { 0 => None, 1 => Some(rng.below(40) as u16), 2 => Some(12), _ => Some(rng.next() as u16) }),
            1 => { let n = rng.below(6) as usize; Op::WriteTlv(random_kind(rng), rng.bytes(n)) }
            _ => Op::Write(random_payload(rng, false)),
        });
    }
    let built = build_prefix(&ops);
    if built["k"] == "ok" {
        Some(unrl(&built["v"]))
    } else {
        None
    }
}

pub fn generate_builder(name: &str, count: usize, rng: &mut Rng, out: &mut dyn Write) -> usize {
    let mut n = 0;
    match name {
        // arbitrary call sequences
        "bseq" => {
            for i in 0..count {
                let mut ops = vec![random_ctor(rng, false)];
                let len = rng.below(9) as usize;
                let mut bigs = 0;
                for _ in 0..len {
                    let op = match rng.below(10) {
                        0 => Op::Reserve(*rng.pick(&[0usize, 1, 7, 4096, 1 << 20])),
                        1 | 2 => Op::SetLen(match rng.below(5) { 0 => None, 1 => Some(0), 2 => Some(65535), _ => Some(rng.next() as u16) }),
                        3 => {
                            let k = rng.below(4) as usize;
                            Op::Writes((0..k).map(|_| random_payload(rng, false)).collect(), rng.chance(1, 2))
                        }
                        4 => Op::WriteTlv(random_kind(rng), { let mut b = blob(rng); if bigs >= 2 { b.truncate(5); } if b.len() > 300 { bigs += 1; } b }),
                        _ => { let p = random_payload(rng, bigs < 2); if payload_len(&p) > 300 { bigs += 1; } Op::Write(p) }
                    };
                    ops.push(op);
                }
                ops.push(Op::Build);
                n += run_ops(&format!("bseq-{}", i), &json!({"g": "bseq"}), &ops, out);
            }
        }
        // set_length at every position relative to writes
        "bsetlen" => {
            for i in 0..count {
                let mut ops = vec![random_ctor(rng, true)];
                let writes = rng.range(0, 3) as usize;
                let mut body: Vec<Op> = (0..writes).map(|_| Op::Write(random_payload(rng, false))).collect();
                let sets = rng.range(1, 3) as usize;
                for _ in 0..sets {
                    let pos = rng.below(body.len() as u64 + 1) as usize;
                    let v = match rng.below(6) { 0 => None, 1 => Some(0u16), 2 => Some(65535), 3 => Some(0x0102), _ => Some(rng.next() as u16) };
                    body.insert(pos, Op::SetLen(v));
                }
                ops.extend(body);
                ops.push(Op::Build);
                n += run_ops(&format!("bsetlen-{}", i), &json!({"g": "bsetlen"}), &ops, out);
            }
        }
        // payload totals below / at / above 65535
        "btotal" => {
            for i in 0..count {
                let ctor = random_ctor(rng, true);
                let addr_len = match &ctor { Op::With { addr, .. } => addr.len(), _ => 0 };
                let target = 65535usize + *rng.pick(&[0usize, 0, 1, 2]) - *rng.pick(&[0usize, 0, 1, 3]);
                let mut ops = vec![ctor];
                let mut remaining = target.saturating_sub(addr_len);
                let fill = rng.next() as u8;
                while remaining > 0 {
                    let tlv = rng.chance(1, 2) && remaining >= 3;
                    let take = remaining.min(*rng.pick(&[65535usize, 40000, 65535, 30000]));
                    if tlv {
                        let v = take.saturating_sub(3).min(65535);
                        ops.push(Op::WriteTlv(random_kind(rng), vec![fill; v]));
                        remaining -= v + 3;
                    } else {
                        ops.push(Op::Write(Payload::Slice(vec![fill; take])));
                        remaining -= take;
                    }
                }
                if rng.chance(1, 4) {
                    ops.insert(rng.range(1, ops.len() as u64) as usize, Op::SetLen(Some(rng.next() as u16)));
                    if rng.chance(1, 2) {
                        ops.push(Op::SetLen(None));
                    }
                }
                ops.push(Op::Build);
                n += run_ops(&format!("btotal-{}", i), &json!({"g": "btotal"}), &ops, out);
            }
        }
        // sequences that push the buffer past the writer's size limit (65551 bytes) and then
        // write one value of every kind; with and without an explicit length
        "bover" => {
            let kinds = 9;
            for i in 0..count {
                let ctor = random_ctor(rng, true);
                let mut ops = vec![ctor];
                if i % 3 != 2 {
                    ops.push(Op::SetLen(Some(*rng.pick(&[0u16, 7, 65535]))));
                }
                let fill = rng.next() as u8;
                ops.push(Op::Write(Payload::Slice(vec![fill; 65535])));
                ops.push(Op::Write(Payload::Slice(vec![fill ^ 0xff; *rng.pick(&[0usize, 1, 16, 17, 40])])));
                let tail = match i % kinds {
                    0 => Payload::Type(TYPES[rng.below(12) as usize].0),
                    1 => Payload::Int { ty: "u8".into(), neg: false, mag: vec![9] },
                    2 => Payload::Slice(vec![]),
                    3 => Payload::Slice(vec![1, 2, 3]),
                    4 => Payload::Tlv(random_kind(rng), vec![]),
                    5 => Payload::Pair(random_kind(rng), vec![5; 2]),
                    6 => Payload::Addr(random_addr(rng, 1)),
                    7 => Payload::Tlvs(vec![], 0),
                    _ => Payload::Int { ty: "i64".into(), neg: true, mag: vec![1] },
                };
                if i % 2 == 0 {
                    ops.push(Op::Write(tail));
                } else {
                    ops.push(Op::Writes(vec![Payload::Slice(vec![]), tail, Payload::Int { ty: "u16".into(), neg: false, mag: vec![1, 2] }], i % 4 == 1));
                }
                ops.push(Op::Build);
                n += run_ops(&format!("bover-{}", i), &json!({"g": "bover"}), &ops, out);
            }
        }
        // very large batches: tens of thousands of payloads that encode to nothing (empty slices,
        // empty sections, unspecified addresses) around one or two that do, and long runs of
        // one-byte payloads that hit the writer's limit - as slices and through lazy adaptors
        "bbatch" => {
            let empties = [Payload::Slice(vec![]), Payload::Tlvs(vec![], 0), Payload::Addr(v2::Addresses::Unspecified)];
            let counts = [65535usize, 65536, 65551, 65552, 65553, 70000, 131072];
            for i in 0..count {
                let ctor = random_ctor(rng, false);
                let mut ops = vec![ctor];
                if rng.chance(1, 3) {
                    ops.push(Op::SetLen(Some(*rng.pick(&[0u16, 4, 65535]))));
                }
                let e = empties[i % 3].clone();
                let c = counts[(i / 3) % counts.len()];
                let tail = match rng.below(4) {
                    0 => Payload::Slice(b"tail".to_vec()),
                    1 => Payload::Int { ty: "u16".into(), neg: false, mag: vec![0xAB, 0xCD] },
                    2 => Payload::Tlv(random_kind(rng), vec![7; 3]),
                    _ => Payload::Type(TYPES[rng.below(12) as usize].0),
                };
                let runs = match i % 5 {
                    0 => vec![(e, c), (tail, 1)],
                    1 => vec![(Payload::Slice(b"head".to_vec()), 1), (e, c), (tail, 1)],
                    2 => vec![(e.clone(), c / 2), (tail.clone(), 1), (e, c / 2 + 7), (tail, 1)],
                    3 => vec![(Payload::Int { ty: "u8".into(), neg: false, mag: vec![0x5A] }, c), (tail, 1)],
                    _ => vec![(e, c)],
                };
                // the same payloads as one batch and one call at a time must build the same header
                if i % 5 != 3 {
                    let mut a = ops.clone();
                    a.push(Op::WritesRep(runs.clone(), i % 2 == 1, false));
                    a.push(Op::Build);
                    let mut bb = ops.clone();
                    bb.push(Op::WritesRep(runs.clone(), false, true));
                    bb.push(Op::Build);
                    let pid = 300000 + i;
                    n += run_ops(&format!("bbatch-pair-{}", i), &json!({"g": "bpairs", "pair": pid, "side": "a"}), &a, out);
                    n += run_ops_in(&format!("bbatch-pair-{}", i), &json!({"g": "bpairs", "pair": pid, "side": "b"}), &bb, out, false);
                }
                ops.push(Op::WritesRep(runs, i % 2 == 1, false));
                if rng.chance(1, 2) {
                    ops.push(Op::Write(Payload::Slice(b"after".to_vec())));
                }
                ops.push(Op::Build);
                n += run_ops(&format!("bbatch-{}", i), &json!({"g": "bbatch"}), &ops, out);
            }
        }
        // user-defined payload types (the trait is public): composites that append several TLVs and
        // return how many, writers that return 0 or a number unrelated to what they appended -
        // alone, in batches, before / after set_length, around the 65535 mark
        "bcustom" => {
            for i in 0..count {
                let ctor = random_ctor(rng, false);
                let mut ops = vec![ctor];
                let two_tlvs: Vec<u8> = vec![4, 0, 1, 0xAA, 0x21, 0, 2, 1, 2];
                let big: Vec<u8> = { let mut v = vec![4u8, 0x9c, 0x40]; v.extend(vec![0x11u8; 40000]); let mut w = v.clone(); w.extend(v); w };
                let nest = ((i / 6) % 3) as u8;
                let custom = match i % 6 {
                    0 => Payload::Custom(two_tlvs.clone(), 2, nest),
                    1 => Payload::Custom(b"text written with write!".to_vec(), 0, nest),
                    2 => Payload::Custom(two_tlvs.clone(), 70000, nest),
                    3 => Payload::Custom(big.clone(), 2, nest),
                    4 => Payload::Custom(vec![], 17, nest),
                    _ => Payload::Custom(vec![7u8; 1 + rng.below(40) as usize], rng.below(100) as usize, nest),
                };
                if rng.chance(1, 3) { ops.push(Op::SetLen(Some(*rng.pick(&[0u16, 9, 65535])))); }
                if rng.chance(1, 2) { ops.push(Op::Write(random_payload(rng, false))); }
                if i % 2 == 0 { ops.push(Op::Write(custom)); } else { ops.push(Op::Writes(vec![Payload::Slice(vec![1]), custom, Payload::Type(TYPES[i % 12].0)], i % 4 == 1)); }
                if rng.chance(1, 3) { ops.push(Op::SetLen(None)); }
                if rng.chance(1, 2) { ops.push(Op::Write(random_payload(rng, false))); }
                ops.push(Op::Build);
                n += run_ops(&format!("bcustom-{}", i), &json!({"g": "bcustom"}), &ops, out);
            }
        }
        // pairs of sessions that differ only in reservations / batching
        "bpairs" => {
            // pairs that cross the writer's size limit with an explicit length in force: one at a
            // time versus a vector versus a lazy adaptor must succeed or fail alike
            for i in 0..(count / 8).max(2) {
                let ctor = random_ctor(rng, false);
                let head = vec![ctor.clone(), Op::SetLen(Some(*rng.pick(&[0u16, 7, 65535]))), Op::Write(Payload::Slice(vec![0x33; *rng.pick(&[65535usize, 65530, 65500])]))];
                let ps: Vec<Payload> = vec![Payload::Slice(vec![1; *rng.pick(&[1usize, 10, 30, 60])]), Payload::Slice(vec![2; 1 + rng.below(40) as usize]), Payload::Int { ty: "u8".into(), neg: false, mag: vec![3] }];
                let mut a = head.clone();
                a.extend(ps.iter().cloned().map(Op::Write));
                a.push(Op::Build);
                let mut b = head.clone();
                b.push(Op::Writes(ps.clone(), i % 2 == 0));
                b.push(Op::Build);
                let pid = 100000 + i;
                n += run_ops(&format!("bpairs-big-{}", i), &json!({"g": "bpairs", "pair": pid, "side": "a"}), &a, out);
                n += run_ops_in(&format!("bpairs-big-{}", i), &json!({"g": "bpairs", "pair": pid, "side": "b"}), &b, out, false);
            }
            for i in 0..count {
                let ctor = random_ctor(rng, false);
                let k = rng.range(1, 4) as usize;
                let ps: Vec<Payload> = (0..k).map(|_| random_payload(rng, false)).collect();
                let mut a = vec![ctor.clone()];
                a.extend(ps.iter().cloned().map(Op::Write));
                a.push(Op::Build);
                let mut b = vec![ctor.clone(), Op::Reserve(*rng.pick(&[0usize, 3, 100, 70000]))];
                if rng.chance(1, 2) {
                    b.push(Op::Writes(ps.clone(), rng.chance(1, 2)));
                } else {
                    let cut = rng.below(k as u64 + 1) as usize;
                    b.push(Op::Writes(ps[..cut].to_vec(), rng.chance(1, 2)));
                    b.push(Op::Reserve(5));
                    b.push(Op::Writes(ps[cut..].to_vec(), rng.chance(1, 2)));
                }
                b.push(Op::Build);
                n += run_ops(&format!("bpairs-{}", i), &json!({"g": "bpairs", "pair": i, "side": "a"}), &a, out);
                n += run_ops_in(&format!("bpairs-{}", i), &json!({"g": "bpairs", "pair": i, "side": "b"}), &b, out, false);
            }
        }
        // C07 shape: valid codes, TLVs only, then the built header is parsed back
        "bwire" => {
            for i in 0..count {
                let ctor = random_ctor(rng, true);
                let ctor = match ctor { Op::New { vc, afp, bitor } => Op::With { vc, tr: tr_from(["Unspecified", "Stream", "Datagram"][(afp & 3) as usize % 3]), addr: random_addr(rng, (afp >> 4) as u64), bitor }, c => c };
                let addr_len = match &ctor { Op::With { addr, .. } => addr.len(), _ => 0 };
                let mut ops = vec![ctor];
                let k = rng.below(4) as usize;
                let limit: usize = 65535 - addr_len;
                let mut used: usize = 0;
                for j in 0..k {
                    if used + 3 > limit { break; }
                    let mut v = blob(rng);
                    if i % 16 != 0 && v.len() > 300 { v.truncate(rng.below(7) as usize); }
                    if used + 3 + v.len() > limit { v.truncate(limit - used - 3); }
                    used += v.len() + 3;
                    let kind = if (i + j) % 2 == 0 { Kind::Named(TYPES[(i + j) % 12].0) } else { Kind::Raw(((i * 7 + j * 13) % 256) as u8) };
                    ops.push(match rng.below(3) { 0 => Op::WriteTlv(kind, v), 1 => Op::Write(Payload::Tlv(kind, v)), _ => Op::Write(Payload::Pair(kind, v)) });
                }
                // exact fit: fill the payload to exactly 65535 bytes now and then
                if i % 16 == 0 && used + 3 <= limit {
                    ops.push(Op::WriteTlv(Kind::Named(Type::NoOp), vec![0x5a; limit - used - 3]));
                }
                ops.push(Op::Build);
                let tag = json!({"g": "bwire"});
                n += run_ops(&format!("bwire-{}", i), &tag, &ops, out);
                maybe_parse_back(&format!("bwire-{}", i), &tag, &ops, out, &mut n);
            }
        }
        // C07: one TLV per header for every type code (count >= 8448: all 256 codes, otherwise the
        // registered codes and their neighbours plus a seed-shifted selection) x value lengths
        // around the powers of two x the three ways of writing a TLV, parsed back
        "btypes" => {
            let lens = [0usize, 1, 2, 127, 128, 129, 255, 256, 257, 1024, 4096];
            let mut grid: Vec<(u8, usize, usize)> = Vec::new();
            let registered: Vec<u8> = TYPES.iter().map(|(t, _)| u8::from(*t)).collect();
            let mut codes: Vec<u8> = if count >= 8448 { (0..=255u8).collect() } else {
                let mut c = registered.clone();
                for r in &registered { c.push(r.wrapping_add(1)); c.push(r.wrapping_sub(1)); }
                c.extend_from_slice(&[0, 0x7f, 0x80, 0xff]);
                for _ in 0..count / 33 { c.push(rng.next() as u8); }
                c
            };
            codes.sort();
            codes.dedup();
            for c in &codes { for (li, _) in lens.iter().enumerate() { for path in 0..3usize { grid.push((*c, li, path)); } } }
            let take = if count >= 8448 { grid.len() } else { count.min(grid.len()) };
            // registered codes always come with every length through write_tlv; the rest is sampled
            let mut chosen: Vec<(u8, usize, usize)> = Vec::new();
            for c in &registered { for (li, _) in lens.iter().enumerate() { chosen.push((*c, li, 0)); } }
            let step = grid.len() as f64 / take as f64;
            let off = (rng.below(97) as f64) / 97.0 * step;
            for i in 0..take { chosen.push(grid[((off + i as f64 * step) as usize).min(grid.len() - 1)]); }
            for (i, (code, li, path)) in chosen.into_iter().enumerate() {
                let fam = 1 + (i % 3) as u64;
                let ctor = Op::With { vc: 0x20 + (i % 2) as u8, tr: tr_from(["Unspecified", "Stream", "Datagram"][i % 3]), addr: random_addr(rng, fam), bitor: (i % 3) as u8 };
                let v = vec![(i % 251) as u8; lens[li]];
                let kind = match registered.iter().position(|r| *r == code) { Some(k) if i % 2 == 0 => Kind::Named(TYPES[k].0), _ => Kind::Raw(code) };
                let w = match path { 0 => Op::WriteTlv(kind, v), 1 => Op::Write(Payload::Tlv(kind, v)), _ => Op::Write(Payload::Pair(kind, v)) };
                let ops = vec![ctor, w, Op::Build];
                let tag = json!({"g": "bwire"});
                n += run_ops(&format!("btypes-{}", i), &tag, &ops, out);
                maybe_parse_back(&format!("btypes-{}", i), &tag, &ops, out, &mut n);
            }
        }
        // C07 with structured TLV lists (see structured_tlv_list)
        "blists" => {
            for i in 0..count {
                let fam = 1 + (i % 3) as u64;
                let addr = random_addr(rng, fam);
                let budget = 65535 - addr.len();
                let ctor = Op::With { vc: 0x20 + (i % 2) as u8, tr: tr_from(["Unspecified", "Stream", "Datagram"][i % 3]), addr, bitor: (i % 3) as u8 };
                let mut ops = vec![ctor];
                for (j, (t, v)) in structured_tlv_list(i, budget, rng).into_iter().enumerate() {
                    let kind = match TYPES.iter().position(|(x, _)| u8::from(*x) == t) { Some(k) if (i + j) % 2 == 0 => Kind::Named(TYPES[k].0), _ => Kind::Raw(t) };
                    ops.push(match (i + j) % 3 { 0 => Op::WriteTlv(kind, v), 1 => Op::Write(Payload::Tlv(kind, v)), _ => Op::Write(Payload::Pair(kind, v)) });
                }
                ops.push(Op::Build);
                let tag = json!({"g": "bwire"});
                // long call sequences: only the final build is of interest
                let sid = format!("blists-{}", i);
                if ops.len() > 60 {
                    n += run_ops_final_only(&sid, &tag, &ops, out);
                } else {
                    n += run_ops(&sid, &tag, &ops, out);
                }
                maybe_parse_back(&sid, &tag, &ops, out, &mut n);
            }
        }
        // C07: every registered type x every realistic value (see realistic_values), through write_tlv
        // and the two write_payload forms, parsed back
        "breal" => {
            let values = realistic_values();
            let total = TYPES.len() * values.len();
            let take = count.min(total);
            let step = total as f64 / take as f64;
            let off = (rng.below(97) as f64) / 97.0 * step;
            for i in 0..take {
                let idx = ((off + i as f64 * step) as usize).min(total - 1);
                let (t, v) = (TYPES[idx % TYPES.len()].0, values[idx / TYPES.len()].clone());
                let ctor = Op::With { vc: 0x21, tr: tr_from("Stream"), addr: random_addr(rng, 1 + (i % 3) as u64), bitor: 0 };
                let kind = if i % 2 == 0 { Kind::Named(t) } else { Kind::Raw(u8::from(t)) };
                let w = match i % 3 { 0 | 1 => Op::WriteTlv(kind, v), _ => Op::Write(Payload::Tlv(kind, v)) };
                let ops = vec![ctor, w, Op::Build];
                let tag = json!({"g": "bwire"});
                n += run_ops(&format!("breal-{}", i), &tag, &ops, out);
                maybe_parse_back(&format!("breal-{}", i), &tag, &ops, out, &mut n);
            }
        }
        // C13: parse a header, then rebuild it from the observed parts
        "rebuild" => {
            for i in 0..count {
                let mut input = if i % 3 == 1 { crate::stream::halves_header(i / 3, rng) } else { crate::stream::random_v2_good(rng) };
                if i % 20 == 0 {
                    // large payloads
                    let fam = rng.below(4) as u8;
                    let l = *rng.pick(&[65535usize, 65534, 40000]);
                    let mut body: Vec<u8> = (0..crate::stream::family_size(fam)).map(|j| (j * 5 + 1) as u8).collect();
                    let fill = rng.next() as u8;
                    while body.len() < l { body.push(fill); }
                    input = crate::stream::v2_header(0x21, (fam << 4) | 1, l as u16, &body);
                }
                if i % 4 == 3 {
                    let fam = 1 + (i % 3) as u8;
                    let mut body: Vec<u8> = (0..crate::stream::family_size(fam)).map(|j| (j * 3 + 7) as u8).collect();
                    let budget = 65535 - body.len();
                    let mut list = structured_tlv_list(i / 4, budget, rng);
                    if list.len() > 45 { list.truncate(45); }
                    for (t, v) in list {
                        body.push(t);
                        body.extend_from_slice(&(v.len() as u16).to_be_bytes());
                        body.extend_from_slice(&v);
                    }
                    input = crate::stream::v2_header(0x21, (fam << 4) | 1, body.len() as u16, &body);
                }
                if rng.chance(1, 3) { input.extend_from_slice(b"trailing"); }
                n += rebuild_sessions(&format!("rebuild-{}", i), &input, out);
            }
        }
        other => panic!("unknown builder generator {}", other),
    }
    n
}

fn payload_len(p: &Payload) -> usize {
    match p {
        Payload::Slice(b) | Payload::Tlv(_, b) | Payload::Pair(_, b) | Payload::Tlvs(b, _) => b.len(),
        _ => 0,
    }
}

/// Parses `input`; if accepted, rebuilds the header three ways from what the parse reported.
pub fn rebuild_sessions(sid: &str, input: &[u8], out: &mut dyn Write) -> usize {
    let mut n = 0;
    let obs = v2_bytes(input, true);
    writeln!(out, "{}", json!({"fam": "builder", "sid": sid, "op": "Parsed", "input": rl(input), "obs": obs})).unwrap();
    n += 1;
    if obs["k"] != "ok" {
        return n;
    }
    let parts = guard(|| {
        let h = v2::Header::try_from(input).unwrap();
        let raw = h.as_bytes().to_vec();
        let ab = h.address_bytes().to_vec();
        let tb = h.tlv_bytes().to_vec();
        let items: Vec<Result<(u8, Vec<u8>), ()>> = h.tlvs().take(tb.len() + 2).map(|r| r.map(|t| (t.kind, t.value.to_vec())).map_err(|_| ())).collect();
        (raw, ab, tb, items, h.addresses, h.protocol)
    });
    let (raw, ab, tb, items, addresses, protocol) = match parts {
        Ok(p) => p,
        Err(_) => return n,
    };
    let (vc, afp) = (raw[12], raw[13]);
    let ops = vec![Op::New { vc, afp, bitor: 0 }, Op::Write(Payload::Slice(ab.clone())), Op::Write(Payload::Slice(tb.clone())), Op::Build];
    n += run_ops_in(sid, &json!({"g": "rebuild", "mode": "raw", "of": sid}), &ops, out, false);
    // the control bytes composed from the decoded typed parts (`version | command`,
    // `protocol | family`), in either operand order
    for order in [1u8, 2u8] {
        let ops = vec![Op::New { vc, afp, bitor: order }, Op::Write(Payload::Slice(ab.clone())), Op::Write(Payload::Slice(tb.clone())), Op::Build];
        n += run_ops_in(sid, &json!({"g": "rebuild", "mode": "typed", "of": sid}), &ops, out, false);
    }
    if items.iter().all(|r| r.is_ok()) {
        let mut ops = vec![Op::New { vc, afp, bitor: 0 }, Op::Write(Payload::Slice(ab.clone()))];
        for r in &items {
            let (k, v) = r.clone().unwrap();
            ops.push(Op::WriteTlv(Kind::Raw(k), v));
        }
        ops.push(Op::Build);
        n += run_ops_in(sid, &json!({"g": "rebuild", "mode": "items", "of": sid}), &ops, out, false);
    }
    {
        // the section handed over as the value `header.tlvs()` after a peek at its first item
        let ops = vec![Op::New { vc, afp, bitor: 0 }, Op::Write(Payload::Slice(ab.clone())), Op::Write(Payload::Tlvs(tb.clone(), 1)), Op::Build];
        n += run_ops_in(sid, &json!({"g": "rebuild", "mode": "peek", "of": sid}), &ops, out, false);
    }
    if !matches!(addresses, v2::Addresses::Unspecified) {
        let ops = vec![Op::With { vc, tr: protocol, addr: addresses, bitor: 0 }, Op::Write(Payload::Tlvs(tb.clone(), 0)), Op::Build];
        n += run_ops_in(sid, &json!({"g": "rebuild", "mode": "addr", "of": sid}), &ops, out, false);
    }
    // the header's OWN values handed to the builder: `address_bytes()` and `tlvs()` of the borrowed
    // header, of its owned copy (after the source buffer is gone) and of a clone
    for via in 0..3usize {
        let built = guard(|| {
            let mut src = input.to_vec();
            let h = v2::Header::try_from(&src[..]).expect("accepted above");
            let owned;
            let cloned;
            let hv: &v2::Header = match via {
                0 => &h,
                1 => { owned = h.to_owned(); &owned }
                _ => { cloned = h.clone(); &cloned }
            };
            let r = Builder::new(vc, afp).write_payload(hv.address_bytes()).and_then(|b| b.write_payload(hv.tlvs())).and_then(|b| b.build());
            let out = match r {
                Ok(bytes) => json!({"k": "ok", "v": rl(&bytes)}),
                Err(e) => json!({"k": "err", "ek": ek(&e)}),
            };
            if via == 0 { src.clear(); }
            out
        })
        .unwrap_or_else(|p| panic_value(&p));
        let via_name = ["borrowed", "owned", "clone"][via];
        let tag = json!({"g": "rebuild", "mode": "value", "of": sid, "via": via_name});
        writeln!(out, "{}", json!({"sid": sid, "op": "BReset", "tag": tag})).unwrap();
        writeln!(out, "{}", json!({"sid": sid, "op": "BNew", "vc": vc, "afp": afp, "bitor": 0, "r": "ok", "built": {"k": "na"}})).unwrap();
        writeln!(out, "{}", json!({"sid": sid, "op": "BWrite", "p": {"ty": "slice", "v": rl(&ab)}, "r": "ok", "built": {"k": "na"}})).unwrap();
        writeln!(out, "{}", json!({"sid": sid, "op": "BWrite", "p": {"ty": "tlvs", "v": rl(&tb)}, "r": "ok", "built": {"k": "na"}})).unwrap();
        let r = match built["k"].as_str() { Some("ok") => "ok", Some("panic") => "panic", _ => "err" };
        writeln!(out, "{}", json!({"sid": sid, "op": "BBuild", "r": r, "built": built})).unwrap();
        n += 5;
    }
    n
}

pub fn run_rebuild_scenario(v: &Value, idx: usize, out: &mut dyn Write) -> usize {
    let sid = v["sid"].as_str().map(|s| s.to_string()).unwrap_or(format!("scn-{}", idx));
    rebuild_sessions(&sid, &unrl(&v["input"]), out)
}

pub fn generate_writer(name: &str, count: usize, rng: &mut Rng, out: &mut dyn Write) -> usize {
    let mut n = 0;
    match name {
        "wvals" => {
            for i in 0..count {
                let pre_len = *rng.pick(&[0usize, 0, 1, 16, 4096]);
                let pre = if pre_len > 100 { vec![rng.next() as u8; pre_len] } else { rng.bytes(pre_len) };
                let k = rng.range(1, 4) as usize;
                let ps: Vec<Payload> = (0..k).map(|j| random_payload(rng, j == 0 && i % 4 == 0)).collect();
                n += run_writer(&format!("wvals-{}", i), &json!({"g": "wvals"}), &pre, &ps, out);
            }
        }
        // every integer type at min / max / 0 / 1
        "wints" => {
            let mut i = 0;
            for (ty, width, signed) in INT_TYPES.iter() {
                let mut cases: Vec<(bool, Vec<u8>)> = vec![(false, vec![]), (false, vec![1]), (false, (1..=*width as u8).collect())];
                if *signed {
                    let mut max = vec![0xff; *width];
                    max[0] = 0x7f;
                    let mut min = vec![0; *width];
                    min[0] = 0x80;
                    cases.push((false, max));
                    cases.push((true, min));
                    cases.push((true, vec![1]));
                    cases.push((true, vec![2]));
                } else {
                    cases.push((false, vec![0xff; *width]));
                }
                for _ in 0..count.max(1) {
                    let mut m = rng.bytes(*width);
                    if *signed { m[0] &= 0x7f; }
                    while m.first() == Some(&0) { m.remove(0); }
                    let neg = *signed && rng.chance(1, 2) && !m.is_empty();
                    cases.push((neg, m));
                }
                for (neg, mag) in cases {
                    let p = Payload::Int { ty: ty.to_string(), neg, mag };
                    let pre = if i % 2 == 0 { vec![] } else { vec![9, 8, 7] };
                    n += run_writer(&format!("wints-{}", i), &json!({"g": "wints"}), &pre, &[p], out);
                    i += 1;
                }
            }
        }
        // every type byte, named and raw, value lengths at the boundaries
        "wtlv" => {
            let mut i = 0;
            let lens = [0usize, 1, 2, 3, 255, 256, 65535, 65536];
            for code in 0..=255u8 {
                let len = lens[(code as usize) % lens.len()];
                let len = if count < 2 && len > 300 && code % 32 != 7 { 3 } else { len };
                let v = vec![code ^ 0x55; len];
                let ps = vec![Payload::Tlv(Kind::Raw(code), v.clone()), Payload::Pair(Kind::Raw(code), v)];
                n += run_writer(&format!("wtlv-{}", i), &json!({"g": "wtlv"}), &[1, 2], &ps, out);
                i += 1;
            }
            for (j, (t, _)) in TYPES.iter().enumerate() {
                let v = rng.bytes(j);
                let ps = vec![Payload::Tlv(Kind::Named(*t), v.clone()), Payload::Pair(Kind::Named(*t), v), Payload::Type(*t)];
                n += run_writer(&format!("wtlv-{}", i), &json!({"g": "wtlv"}), &[], &ps, out);
                i += 1;
            }
        }
        // every length-carrying kind at 65535 / 65536 / 65538 bytes
        "wbig" => {
            let mut i = 0;
            for size in [65535usize, 65536, 65538] {
                for kind in 0..4 {
                    if i >= count.max(1) * 12 { break; }
                    let v = vec![(i as u8).wrapping_mul(37) | 1; size];
                    let p = match kind {
                        0 => Payload::Slice(v),
                        1 => Payload::Tlv(Kind::Raw(0xE0 + kind as u8), v),
                        2 => Payload::Pair(Kind::Named(Type::Authority), v),
                        _ => Payload::Tlvs(v, 0),
                    };
                    let pre = if i % 2 == 0 { vec![] } else { vec![7u8; 16] };
                    n += run_writer(&format!("wbig-{}", i), &json!({"g": "wbig"}), &pre, &[p, Payload::Type(Type::NoOp)], out);
                    i += 1;
                }
            }
        }
        // one `Writer::default()` kept across several writes, small and across the 65536 mark
        "wpersist" => {
            for i in 0..count {
                let mut ps: Vec<Payload> = Vec::new();
                if i % 3 == 0 {
                    let fill = rng.next() as u8 | 1;
                    ps.push(Payload::Slice(vec![fill; 65535]));
                    ps.push(Payload::Slice(vec![fill; *rng.pick(&[0usize, 1, 2, 15, 16, 17])]));
                }
                for _ in 0..rng.range(2, 5) {
                    ps.push(random_payload(rng, false));
                }
                n += run_writer_persistent(&format!("wpersist-{}", i), &json!({"g": "wpersist"}), &ps, out);
            }
        }
        // around the writer's size limit (reported, not gating)
        "wlimit" => {
            for i in 0..count {
                let pre_len = *rng.pick(&[65535usize, 65550, 65551, 65552, 65536 + 16]);
                let pre = vec![0x11u8; pre_len];
                let ps = vec![random_payload(rng, false), random_payload(rng, false)];
                n += run_writer(&format!("wlimit-{}", i), &json!({"g": "wlimit"}), &pre, &ps, out);
            }
        }
        "whuge" => {
            let lens = [(4usize << 30) + 5, 4usize << 30, (8usize << 30) + 65535, (4usize << 30) + 65536];
            for i in 0..count {
                n += run_writer_huge(&format!("whuge-{}", i), &json!({"g": "whuge"}), i, lens[(i / 3) % lens.len()], out);
            }
        }
        "wraw" => {
            // direct io::Write::write calls on one persistent writer, mixed with ordinary values,
            // up to and beyond the writer's size limit
            for i in 0..count {
                let mut ps = Vec::new();
                let steps = 3 + rng.below(6);
                for _ in 0..steps {
                    if rng.chance(2, 3) {
                        let len = *rng.pick(&[0usize, 1, 2, 15, 16, 100, 4096, 30000, 65535, 65536, 70000]);
                        let fill = rng.next() as u8;
                        ps.push(Payload::Raw(vec![fill; len]));
                    } else {
                        ps.push(random_payload(rng, false));
                    }
                }
                ps.push(Payload::Raw(Vec::new()));
                n += run_writer_persistent(&format!("wraw-{}", i), &json!({"g": "wraw"}), &ps, out);
            }
        }
        "wcustom" => {
            // user-defined values (the trait is public) whose write_to obtains its bytes by
            // converting / writing crate values itself - a nested to_bytes() or a writer of its
            // own inside a running conversion - next to ordinary values, into one writer
            for i in 0..count {
                let nest = (i % 3) as u8;
                let body: Vec<u8> = match (i / 3) % 5 {
                    0 => vec![0x20, 0, 7, 1, 0, 0, 0, 0, 0x21, 0, 0, 0x22, 0, 2, b'h', b'2'],
                    1 => Vec::new(),
                    2 => vec![rng.next() as u8; 1 + rng.below(300) as usize],
                    3 => { let mut v = vec![4u8, 0x75, 0x30]; v.extend(vec![0u8; 30000]); v }
                    _ => { let v = ssl_value(i); let mut t = vec![0x20u8]; t.extend((v.len() as u16).to_be_bytes()); t.extend(v); t }
                };
                let ret = body.len();
                let mut ps = Vec::new();
                if rng.chance(1, 2) { ps.push(random_payload(rng, false)); }
                ps.push(Payload::Custom(body, ret, nest));
                if rng.chance(1, 2) { ps.push(random_payload(rng, false)); }
                let pre: Vec<u8> = if i % 2 == 0 { Vec::new() } else { vec![0xEE; 1 + rng.below(20) as usize] };
                n += run_writer(&format!("wcustom-{}", i), &json!({"g": "wcustom"}), &pre, &ps, out);
            }
        }
        other => panic!("unknown writer generator {}", other),
    }
    n
}
