//! The `stream` family: a receiver that appends chunks to a buffer and re-parses it through every
//! entry point after each read. Also the input generators for it (inputs only, no expectations).

use crate::proj::{all_entry_points, huge_entry_points, inplace_entry_points, moved_observations};
use crate::util::{flat, rl, unflat, unrl, Rng, KNOWN_PORTS, KNOWN_V4, KNOWN_V6};
use serde_json::{json, Value};
use std::io::Write;

pub struct Session {
    pub sid: String,
    pub tag: Value,
    pub chunks: Vec<Vec<u8>>,
    /// after the chunks: the same buffer followed by this many zero bytes (4 GiB and more),
    /// parsed in place; `m` of them are reported to the specification as the chunk
    pub huge: Option<(u64, usize)>,
    /// a consuming receiver: whenever the auto-detecting parser accepts, the header is taken off
    /// the front of the buffer (as many bytes as its length accessor says) and parsing goes on
    pub consume: bool,
    /// parse in place in ONE buffer that is kept (same allocation, same address) across all the
    /// sessions that ask for it - a receiver reusing its read buffer for the next connection
    pub inplace: bool,
    /// with `inplace`: what the previous connection left in the shared buffer - parsed there through
    /// every entry point right before this session starts (results discarded)
    pub prelude: Vec<u8>,
}

thread_local! {
    static REUSED: std::cell::RefCell<Vec<u8>> = std::cell::RefCell::new(Vec::with_capacity(1 << 20));
}

pub fn split_each(bytes: &[u8]) -> Vec<Vec<u8>> {
    bytes.iter().map(|b| vec![*b]).collect()
}

pub fn split_at(bytes: &[u8], cuts: &[usize]) -> Vec<Vec<u8>> {
    let mut out = Vec::new();
    let mut last = 0;
    let mut cs: Vec<usize> = cuts.iter().cloned().filter(|c| *c > 0 && *c < bytes.len()).collect();
    cs.sort();
    cs.dedup();
    for c in cs {
        out.push(bytes[last..c].to_vec());
        last = c;
    }
    out.push(bytes[last..].to_vec());
    out
}

pub fn split_random(bytes: &[u8], rng: &mut Rng) -> Vec<Vec<u8>> {
    if bytes.is_empty() {
        return vec![vec![]];
    }
    let n = 1 + rng.below(6) as usize;
    let cuts: Vec<usize> = (0..n).map(|_| rng.below(bytes.len() as u64) as usize).collect();
    split_at(bytes, &cuts)
}

/// Parses a scenario line exported by the specification (or written by hand for replay).
pub fn session_from_json(v: &Value, idx: usize) -> Session {
    let sid = v["sid"].as_str().map(|s| s.to_string()).unwrap_or(format!("scn-{}", idx));
    let chunks: Vec<Vec<u8>> = if let Some(cs) = v.get("chunks") {
        cs.as_array().expect("chunks").iter().map(unrl).collect()
    } else if let Some(b) = v.get("bytes") {
        let bytes = unflat(b);
        match v.get("cut").and_then(|c| c.as_str()) {
            Some("one") => vec![bytes],
            _ => split_each(&bytes),
        }
    } else {
        let bytes = unrl(&v["rl"]);
        let cuts: Vec<usize> = v["cuts"]
            .as_array()
            .map(|a| a.iter().map(|x| x.as_u64().unwrap() as usize).collect())
            .unwrap_or_default();
        split_at(&bytes, &cuts)
    };
    Session { sid, tag: v.get("tag").cloned().unwrap_or(json!({"g": "scenario"})), chunks, huge: v.get("huge").map(|h| (h["n"].as_u64().unwrap_or(0) + h["gib"].as_u64().unwrap_or(0) * (1u64 << 30), h["m"].as_u64().unwrap_or(0) as usize)), consume: v.get("consume").and_then(|c| c.as_bool()).unwrap_or(false), inplace: v.get("inplace").and_then(|c| c.as_bool()).unwrap_or(false), prelude: v.get("prelude").map(unrl).unwrap_or_default() }
}

pub fn run_session(s: &Session, out: &mut dyn Write) -> usize {
    let mut n = 0;
    if s.inplace {
        writeln!(out, "{}", json!({"fam": "stream", "sid": s.sid, "op": "Reset", "tag": s.tag, "prelude": rl(&s.prelude)})).unwrap();
    } else {
        writeln!(out, "{}", json!({"fam": "stream", "sid": s.sid, "op": "Reset", "tag": s.tag})).unwrap();
    }
    n += 1;
    let mut buf: Vec<u8> = Vec::new();
    let mut last = Value::Null;
    if s.chunks.is_empty() {
        return n;
    }
    // the verdict on the empty buffer (prefix of length 0) is a state of every session
    let empty: Vec<u8> = Vec::new();
    if s.inplace {
        REUSED.with(|r| {
            let mut shared = r.borrow_mut();
            shared.clear();
            if !s.prelude.is_empty() {
                shared.extend_from_slice(&s.prelude);
                let _ = inplace_entry_points(&shared);
                // the last thing the previous connection did was a v2 parse of its buffer
                let _ = crate::util::guard(|| ppp::v2::Header::try_from(&shared[..]).is_ok());
                shared.clear();
            }
        });
    }
    // (a receiver that reuses its buffer does not parse the empty buffer in between)
    for chunk in std::iter::once(&empty).chain(s.chunks.iter()).skip(if s.inplace { 1 } else { 0 }) {
        buf.extend_from_slice(chunk);
        let obs = if s.inplace {
            REUSED.with(|r| {
                let mut shared = r.borrow_mut();
                if shared.len() + chunk.len() <= shared.capacity() {
                    shared.extend_from_slice(chunk);
                }
                inplace_entry_points(&shared)
            })
        } else {
            all_entry_points(&buf, true)
        };
        if !s.inplace {
            // the same bytes at another memory position, where that changes what the crate reports
            for (k, o) in moved_observations(&buf) {
                writeln!(out, "{}", json!({"sid": s.sid, "op": "Moved", "c": rl(chunk), "shift": k, "obs": o})).unwrap();
                n += 1;
            }
        }
        writeln!(out, "{}", json!({"sid": s.sid, "op": "Recv", "c": rl(chunk), "obs": obs})).unwrap();
        n += 1;
        last = obs;
        if s.consume {
            // as a proxy would: while a header is accepted, remove it and look at what follows
            let mut rounds = 0;
            while last["auto"]["k"] == "ok" && rounds < 8 {
                rounds += 1;
                let len = match crate::util::guard(|| match ppp::HeaderResult::parse(&buf) {
                    ppp::HeaderResult::V1(Ok(h)) => h.header.len(),
                    ppp::HeaderResult::V2(Ok(h)) => h.len(),
                    _ => 0,
                }) {
                    Ok(l) => l,
                    Err(_) => break,
                };
                if len == 0 {
                    break;
                }
                buf.drain(..len.min(buf.len()));
                let obs = all_entry_points(&buf, true);
                // (a receiver that slices past the header instead parses the rest where it lies)
                for (k, o) in moved_observations(&buf) {
                    writeln!(out, "{}", json!({"sid": s.sid, "op": "MovedRest", "n": len, "shift": k, "obs": o})).unwrap();
                    n += 1;
                }
                writeln!(out, "{}", json!({"sid": s.sid, "op": "Consume", "n": len, "obs": obs})).unwrap();
                n += 1;
                last = obs;
            }
        }
    }
    if let Some((pad, m)) = s.huge {
        // the same buffer followed by n zero bytes: allocated zeroed (never touched beyond the
        // head), parsed in place; the specification is told about the first m of the zeros
        let total = buf.len() as u64 + pad;
        let mut big = vec![0u8; total as usize];
        big[..buf.len()].copy_from_slice(&buf);
        // one pass over the buffer at 20 MB/s is allowed for, per entry point and then some
        crate::util::set_extra_budget_ms(total / 20_000);
        let obs = huge_entry_points(&big, buf.first() == Some(&b'P'));
        crate::util::set_extra_budget_ms(0);
        drop(big);
        writeln!(out, "{}", json!({"sid": s.sid, "op": "Huge", "c": rl(&vec![0u8; m]), "gib": pad >> 30, "n": pad & ((1u64 << 30) - 1), "m": m, "obs": obs})).unwrap();
        n += 1;
        last = obs;
    }
    // The reported header bytes on their own, through the entry point that reported them.
    for ep in ["v1b", "v1s", "v2", "auto"] {
        let o = &last[ep];
        if o["k"] != "ok" {
            continue;
        }
        let hdr: Vec<u8> = match ep {
            "v1b" | "v1s" => unflat(&o["hdr"]),
            "v2" => unrl(&o["raw"]),
            _ => {
                if o["tag"] == "V1" {
                    unflat(&o["r"]["hdr"])
                } else {
                    unrl(&o["r"]["raw"])
                }
            }
        };
        let obs = all_entry_points(&hdr, true);
        writeln!(out, "{}", json!({"sid": s.sid, "op": "Reparse", "ep": ep, "input": rl(&hdr), "r": obs[ep]})).unwrap();
        n += 1;
    }
    n
}

// ---------------------------------------------------------------------------------------------
// Input generation: text lines
// ---------------------------------------------------------------------------------------------

fn hex_group(g: u16, rng: &mut Rng) -> String {
    let mut s = match rng.below(4) {
        0 => format!("{:04x}", g),
        _ => format!("{:x}", g),
    };
    if rng.chance(1, 4) {
        s = s.to_uppercase();
    }
    s
}

/// Renders eight groups in one of the spellings RFC 4291 allows. Input generation only: whether
/// the text is well formed and what it denotes is decided by the specification from the bytes.
pub fn render_ipv6(groups: [u16; 8], rng: &mut Rng) -> String {
    let v4tail = rng.chance(1, 5);
    let ngroups = if v4tail { 6 } else { 8 };
    let mut parts: Vec<String> = (0..ngroups).map(|i| hex_group(groups[i], rng)).collect();
    // pick a zero run to compress (any run of >= 1 zero groups, sometimes none)
    let mut runs: Vec<(usize, usize)> = Vec::new();
    let mut i = 0;
    while i < ngroups {
        if groups[i] == 0 {
            let mut j = i;
            while j < ngroups && groups[j] == 0 {
                j += 1;
            }
            for a in i..j {
                for b in (a + 1)..=j {
                    runs.push((a, b));
                }
            }
            i = j;
        } else {
            i += 1;
        }
    }
    let mut text = String::new();
    if !runs.is_empty() && rng.chance(3, 4) {
        let (a, b) = *rng.pick(&runs);
        let left: Vec<String> = parts[..a].to_vec();
        let right: Vec<String> = parts[b..].to_vec();
        parts.clear();
        text.push_str(&left.join(":"));
        text.push_str("::");
        text.push_str(&right.join(":"));
        if v4tail {
            if !right.is_empty() {
                text.push(':');
            }
        }
    } else {
        text.push_str(&parts.join(":"));
        if v4tail {
            text.push(':');
        }
    }
    if v4tail {
        text.push_str(&format!(
            "{}.{}.{}.{}",
            groups[6] >> 8,
            groups[6] & 0xff,
            groups[7] >> 8,
            groups[7] & 0xff
        ));
    }
    text
}

pub fn random_groups(rng: &mut Rng) -> [u16; 8] {
    let mut g = [0u16; 8];
    let style = rng.below(6);
    for x in g.iter_mut() {
        *x = match style {
            0 => rng.next() as u16,
            1 => *rng.pick(&[0u16, 0, 0, 1, 0xffff]),
            2 => { let r = rng.next() as u16; *rng.pick(&[0u16, 0, r]) }
            3 => *rng.pick(&[0u16, 1, 0xffff, 0x00ab, 0x0abc]),
            _ => {
                if rng.chance(1, 2) {
                    0
                } else {
                    rng.next() as u16
                }
            }
        };
    }
    if rng.chance(1, 8) {
        // well-known classes: link-local (with a non-zero second group), multicast, 6to4, NAT64, ULA, doc
        let p: [u16; 2] = *rng.pick(&[[0xfe80, 0x0004], [0xfe80, 0], [0xff02, 0x1], [0x2002, 0xc000], [0x0064, 0xff9b], [0xfc00, 0x1], [0xfd12, 0x3456], [0x2001, 0x0db8], [0x0100, 0]]);
        g[0] = p[0];
        g[1] = p[1];
    }
    if style == 5 {
        // IPv4-mapped / compatible shapes
        let (a, b) = (rng.next() as u16, rng.next() as u16);
        g = [0, 0, 0, 0, 0, *rng.pick(&[0u16, 0xffff]), a, b];
    }
    g
}

pub fn random_port(rng: &mut Rng) -> u16 {
    match rng.below(6) {
        0 => 0,
        1 => 65535,
        2 => rng.below(10) as u16,
        3 => 256 + rng.below(256) as u16 * 256 / 256,
        _ => rng.next() as u16,
    }
}

pub fn random_octets(rng: &mut Rng) -> [u8; 4] {
    if rng.chance(1, 6) {
        // well-known classes
        let first = *rng.pick(&[0u8, 10, 100, 127, 169, 172, 192, 198, 203, 224, 240, 255]);
        return [first, rng.next() as u8, rng.next() as u8, rng.next() as u8 | 1];
    }
    let mut o = [0u8; 4];
    for x in o.iter_mut() {
        *x = match rng.below(5) {
            0 => 0,
            1 => 255,
            2 => rng.below(10) as u8,
            _ => rng.next() as u8,
        };
    }
    o
}

/// A line meant to be well formed, as its token list
/// `[kw, sp, proto, sp, src, sp, dst, sp, sport, sp, dport, cr, lf]` or, for UNKNOWN,
/// `[kw, sp, proto, text, cr, lf]`.
pub fn random_line_tokens(rng: &mut Rng) -> Vec<Vec<u8>> {
    let t = |s: &str| s.as_bytes().to_vec();
    match rng.below(5) {
        0 => {
            // UNKNOWN
            let text: Vec<u8> = match rng.below(10) {
                8 => t(*rng.pick(&["  two  spaces   ", " PROXY UNKNOWN", " PROXY TCP4 1.2.3.4 5.6.7.8 1 2", " UNKNOWN UNKNOWN", " \n\n", " TCP4", " 65535 65535"])),
                9 => {
                    let k = rng.range(2, 5) as usize;
                    let mut v = vec![b' '; k];
                    v.extend_from_slice(b"x y");
                    v
                }
                0 => vec![],
                1 => t(" "),
                2 => t(" a b c d e f"),
                3 => t(" \n"),
                4 => " h\u{e9}llo \u{20ac} \u{1F600}".as_bytes().to_vec(),
                5 => {
                    // total line length 105..=108: both sides of the 107-byte limit
                    let n = rng.range(89, 92) as usize;
                    let mut v = vec![b' '];
                    v.extend((0..n).map(|i| b"abc d:."[(i + rng.below(3) as usize) % 7]));
                    v
                }
                6 => t(" 1.1.1.1 2.2.2.2 1 2"),
                _ => {
                    let n = rng.below(20) as usize;
                    let mut v = vec![b' '];
                    for _ in 0..n {
                        v.push(*rng.pick(b"ab \n\t0:.\x00~"));
                    }
                    v
                }
            };
            vec![t("PROXY"), t(" "), t("UNKNOWN"), text, t("\r"), t("\n")]
        }
        1 | 2 => {
            let (a, mut b) = (random_octets(rng), random_octets(rng));
            if rng.chance(1, 8) {
                b = a; // equal source and destination
            }
            let ip = |o: [u8; 4]| format!("{}.{}.{}.{}", o[0], o[1], o[2], o[3]).into_bytes();
            vec![
                t("PROXY"), t(" "), t("TCP4"), t(" "), ip(a), t(" "), ip(b), t(" "),
                { let p = random_port(rng); if rng.chance(1, 8) { a[3].to_string().into_bytes() } else { p.to_string().into_bytes() } }, t(" "),
                random_port(rng).to_string().into_bytes(), t("\r"), t("\n"),
            ]
        }
        _ => {
            let (a, mut b) = (random_groups(rng), random_groups(rng));
            if rng.chance(1, 10) {
                b = a;
            }
            if rng.chance(1, 8) {
                // the longest lines the grammar allows: dotted tails push a TCP6 line to 107 bytes
                let long = |g: [u16; 8]| format!("{:04x}:{:04x}:{:04x}:{:04x}:{:04x}:{:04x}:{}.{}.{}.{}", g[0], g[1], g[2], g[3], g[4], g[5], 200 + (g[6] % 56), 100 + (g[6] >> 8) % 100, 100 + (g[7] & 0xff) % 100, 255);
                let ports = *rng.pick(&[("65535", "65535"), ("65535", "6553"), ("10000", "20000")]);
                // two such addresses do not fit into 107 bytes: one side long, the other rendered freely
                let (src, dst) = if rng.chance(1, 2) { (long(a), render_ipv6(b, rng)) } else { (render_ipv6(a, rng), long(b)) };
                return vec![t("PROXY"), t(" "), t("TCP6"), t(" "), src.into_bytes(), t(" "), dst.into_bytes(), t(" "),
                            t(ports.0), t(" "), t(ports.1), t("\r"), t("\n")];
            }
            vec![
                t("PROXY"), t(" "), t("TCP6"), t(" "), render_ipv6(a, rng).into_bytes(), t(" "),
                render_ipv6(b, rng).into_bytes(), t(" "),
                random_port(rng).to_string().into_bytes(), t(" "),
                random_port(rng).to_string().into_bytes(), t("\r"), t("\n"),
            ]
        }
    }
}

pub fn random_trailer(rng: &mut Rng) -> Vec<u8> {
    match rng.below(17) {
        14 => vec![4, 0, 1, 42],            // a well-formed TLV that would extend the TLV section
        15 => vec![1, 0],                   // the start of one
        16 => b"123".to_vec(),              // digits that would extend the last port
        10 => vec![0xff, 0xfe, 0x80],
        11 => vec![0x16, 0x03, 0x01, 0x02, 0x00, 0x01, 0x00, 0x01, 0xfc, 0x03, 0x03, 0xd1, 0x9a],
        12 => vec![0xe2, 0x82],
        13 => { let n = rng.below(6) as usize; let mut v = vec![b'a'; n]; v.extend_from_slice("\u{20ac}\u{1F600}".as_bytes()); v }
        0 | 1 | 2 => vec![],
        3 => b"GET / HTTP/1.1\r\n\r\n".to_vec(),
        4 => b"5".to_vec(),
        5 => b"\n".to_vec(),
        6 => b"\r\n".to_vec(),
        7 => b"\x00".to_vec(),
        8 => b"PROXY TCP4 9.9.9.9 8.8.8.8 7 6\r\n".to_vec(),
        _ => {
            let mut v = ppp::v2::PROTOCOL_PREFIX.to_vec();
            v.extend([0x21, 0x11, 0, 12, 1, 2, 3, 4, 5, 6, 7, 8, 0, 9, 1, 0]);
            v
        }
    }
}

const KW_REPL: &[&str] = &["proxy", "Proxy", "PROX", "PROXYY", "", "PR0XY", "QROXY", "PROXZ", "XPROXY"];
const PROTO_REPL: &[&str] = &["tcp4", "TCP", "TCP44", "TCP5", "UDP4", "", "unknown", "UNKNOW", "UNKNOWNN", "TCP", "T", "U", "TCP4x", "Tcp6"];
const ADDR4_REPL: &[&str] = &["256.1.1.1", "1.1.1", "1.1.1.1.1", "01.1.1.1", "1.1.1.256", "", "::1", "a.b.c.d", "1..1.1", "1.1.1.", ".1.1.1", "1.1.1.1/8", "0x1.1.1.1", "1,1,1,1", "999999999999"];
const ADDR6_REPL: &[&str] = &["1.2.3.4", ":::", "1:2:3:4:5:6:7", "1:2:3:4:5:6:7:8:9", "g::1", "12345::", "", "1::2::3", ":1", "1:", "[::1]", "::1%eth0", "::1/64", "1:2:3:4:5:6:7:8::", "::256.1.1.1", "::01.2.3.4", "1.2.3.4::", "::1.2.3"];
const PORT_REPL: &[&str] = &["65536", "+1", "-1", "01", "00", "", "1a", "99999999999", "0x10", "65535x", "-0", "+0", "1.0", "1e3", "\u{663}"];
const LF_REPL: &[u8] = b"X\r \t\x00\x0b5P\x7f";

/// A single-element corruption of a line: returns (tag, bytes).
pub fn corrupt_line(tokens: &[Vec<u8>], rng: &mut Rng) -> (Value, Vec<u8>) {
    let base: Vec<u8> = tokens.concat();
    let is_tcp = tokens.len() == 13;
    let is6 = is_tcp && tokens[2] == b"TCP6";
    let choices: &[&str] = if is_tcp {
        &["kw", "proto", "src", "dst", "sport", "dport", "lf"]
    } else {
        &["kw", "proto", "lf", "long", "utf8"]
    };
    let elem = *rng.pick(choices);
    let s = |x: &&str| x.as_bytes().to_vec();
    let (idx, repl): (usize, Vec<u8>) = match elem {
        "kw" => (0, s(rng.pick(KW_REPL))),
        "proto" => (2, s(rng.pick(PROTO_REPL))),
        "src" => (4, if is6 { s(rng.pick(ADDR6_REPL)) } else { s(rng.pick(ADDR4_REPL)) }),
        "dst" => (6, if is6 { s(rng.pick(ADDR6_REPL)) } else { s(rng.pick(ADDR4_REPL)) }),
        "sport" => (8, s(rng.pick(PORT_REPL))),
        "dport" => (10, s(rng.pick(PORT_REPL))),
        "lf" => (tokens.len() - 1, if rng.chance(1, 4) {
            rng.pick(&["\u{e9}", "\u{20ac}", "\u{1F600}", "\u{7ff}"]).as_bytes().to_vec()
        } else {
            vec![*rng.pick(LF_REPL)]
        }),
        "long" => {
            let n = 108 - 15 + rng.below(4) as usize - 1;
            let mut v = vec![b' '];
            v.extend((0..n).map(|i| b"abcdefgh "[i % 9]));
            (3, v)
        }
        _ => {
            let mut v = vec![b' ', b'a'];
            v.extend_from_slice(*rng.pick(&[&b"\xff"[..], &b"\xc3"[..], &b"\xe2\x82"[..], &b"\x80"[..], &b"\xf0\x90\x80"[..], &b"\xc0\xaf"[..], &b"\xed\xa0\x80"[..]]));
            v.push(b'b');
            (3, v)
        }
    };
    let mut toks = tokens.to_vec();
    toks[idx] = repl.clone();
    let bytes = toks.concat();
    (json!({"g": "c12v1", "base": flat(&base), "elem": elem, "repl": flat(&repl)}), bytes)
}

// ---------------------------------------------------------------------------------------------
// Input generation: binary headers
// ---------------------------------------------------------------------------------------------

pub fn family_size(fam_nibble: u8) -> usize {
    match fam_nibble {
        1 => 12,
        2 => 36,
        3 => 216,
        _ => 0,
    }
}

pub fn v2_header(vc: u8, afp: u8, declared: u16, body: &[u8]) -> Vec<u8> {
    let mut v = ppp::v2::PROTOCOL_PREFIX.to_vec();
    v.push(vc);
    v.push(afp);
    v.extend_from_slice(&declared.to_be_bytes());
    v.extend_from_slice(body);
    v
}

fn distinct_body(n: usize, rng: &mut Rng) -> Vec<u8> {
    let start = rng.next() as u8;
    (0..n).map(|i| start.wrapping_add((i * 7 + 1) as u8)).collect()
}

fn random_tlv_section(rng: &mut Rng, budget: usize) -> Vec<u8> {
    let mut v = Vec::new();
    let n = rng.below(4);
    for _ in 0..n {
        let len = *rng.pick(&[0usize, 1, 2, 5, 17]);
        if v.len() + 3 + len > budget {
            break;
        }
        v.push(*rng.pick(&[1u8, 2, 3, 4, 5, 0x20, 0x21, 0x30, 0xEE, 0xEA, 0xE0, 0]));
        if rng.chance(1, 6) && v.len() + 3 + 140 <= budget {
            // a realistic value under whatever type was drawn
            let vals = crate::builder::realistic_values();
            let val = &vals[rng.below(vals.len() as u64) as usize];
            v.extend_from_slice(&(val.len() as u16).to_be_bytes());
            v.extend(val);
            continue;
        }
        if rng.chance(1, 10) && v.len() + 3 + 90 <= budget {
            // a nested PP2_TYPE_SSL structure
            let val = crate::builder::ssl_value(rng.below(2048) as usize);
            v.pop();
            v.push(0x20);
            v.extend_from_slice(&(val.len() as u16).to_be_bytes());
            v.extend(val);
            continue;
        }
        if rng.chance(1, 8) && v.len() + 2 + 40 <= budget {
            // a value made of the protocol's own vocabulary (the signature, an embedded header, a text line)
            let val = crate::builder::vocabulary_bytes(rng);
            v.extend_from_slice(&(val.len() as u16).to_be_bytes());
            v.extend(val);
            continue;
        }
        v.extend_from_slice(&(len as u16).to_be_bytes());
        v.extend(rng.bytes(len));
    }
    match rng.below(6) {
        0 => v.extend_from_slice(&[9, 0]),
        1 => v.extend_from_slice(&[9, 0, 5, 1]),
        _ => {}
    }
    v
}

/// A header meant to be well formed (random valid control bytes, family-sized address block,
/// TLV-ish tail), plus trailer.
/// An address block of the family's size; now and then with a shape that means something to
/// address-aware code (IPv4-mapped IPv6, equal source and destination, zeros, ones, NUL-heavy paths).
/// An address block whose source half, destination half and ports are drawn INDEPENDENTLY from
/// classes (all zero, all ones, a short name / small value padded with zeros, arbitrary bytes).
pub fn halves_block(fam: u8, src: usize, dst: usize, rng: &mut Rng) -> Vec<u8> {
    let half = match fam { 1 => 4, 2 => 16, 3 => 108, _ => 0 };
    let mut make = |class: usize, rng: &mut Rng| -> Vec<u8> {
        match class % 5 {
            // sparse: a name, a long run of zeros, more bytes, zeros, a last byte
            4 => { let mut v = vec![0u8; half]; for (k, b) in v.iter_mut().enumerate() { if k < 3 || (half > 44 && (40..43).contains(&k)) || k + 1 == half || (half <= 16 && k == half / 2) { *b = 0x30 + (k % 40) as u8; } } v }
            0 => vec![0u8; half],
            1 => vec![0xffu8; half],
            2 => { let mut v = vec![0u8; half]; let name = b"/run/x.sock"; let k = name.len().min(half.saturating_sub(1)); v[..k].copy_from_slice(&name[..k]); if fam != 3 { v[half - 1] = 1; } v }
            _ => { let mut v = rng.bytes(half); for b in v.iter_mut() { if *b == 0 { *b = 0x41; } } v }
        }
    };
    let mut body = make(src, rng);
    body.extend(make(dst, rng));
    if fam == 1 || fam == 2 {
        let ports = [[0u8, 0], [0xff, 0xff], [0, 80], [0x80, 0x00]];
        body.extend_from_slice(&ports[(src + dst) % 4]);
        body.extend_from_slice(&ports[(src * 2 + dst + 1) % 4]);
    }
    body
}

fn address_block(fam: u8, rng: &mut Rng) -> Vec<u8> {
    if fam != 0 && rng.chance(1, 14) {
        // an address block whose bytes start with the protocol's own signature
        let n = family_size(fam);
        let mut body = ppp::v2::PROTOCOL_PREFIX.to_vec();
        body.extend(distinct_body(n - 12, rng));
        return body;
    }
    if fam != 0 && rng.chance(1, 6) {
        let (a, b) = (rng.below(5) as usize, rng.below(5) as usize);
        return halves_block(fam, a, b, rng);
    }
    let n = family_size(fam);
    let mut body = distinct_body(n, rng);
    let mapped = |rng: &mut Rng| -> Vec<u8> {
        let mut a = vec![0u8; 10];
        a.extend_from_slice(&[0xff, 0xff]);
        a.extend(rng.bytes(4));
        a
    };
    // addresses of well-known classes (with arbitrary non-zero bytes after the prefix)
    if fam == 2 && rng.chance(1, 5) {
        let prefixes: [&[u8]; 9] = [&[0xfe, 0x80], &[0xfe, 0xc0], &[0xff, 0x02], &[0x20, 0x02], &[0x00, 0x64, 0xff, 0x9b], &[0xfc, 0x00], &[0xfd], &[0x20, 0x01, 0x0d, 0xb8], &[0x01, 0x00]];
        for off in [0usize, 16] {
            if rng.chance(2, 3) {
                let p = *rng.pick(&prefixes);
                body[off..off + p.len()].copy_from_slice(p);
                for b in body[off + p.len()..off + 16].iter_mut() { if *b == 0 { *b = 0x5a; } }
            }
        }
        return body;
    }
    if fam == 1 && rng.chance(1, 5) {
        let firsts = [0u8, 10, 100, 127, 169, 172, 192, 198, 203, 224, 240, 255];
        body[0] = *rng.pick(&firsts);
        body[4] = *rng.pick(&firsts);
        return body;
    }
    if fam != 0 && rng.chance(1, 12) {
        // a block of one repeated byte (all zero / all ones): with LOCAL as well as PROXY commands
        let fill = *rng.pick(&[0u8, 0, 0xff]);
        for b in body.iter_mut() { *b = fill; }
        return body;
    }
    match (fam, rng.below(10)) {
        (2, 0) => { let (a, b) = (mapped(rng), mapped(rng)); body[..16].copy_from_slice(&a); body[16..32].copy_from_slice(&b); }
        (2, 1) => { let a = mapped(rng); body[..16].copy_from_slice(&a); }
        (2, 2) => { let a = mapped(rng); body[16..32].copy_from_slice(&a); }
        (2, 3) => { for b in body[..32].iter_mut() { *b = 0; } body[15] = 1; }
        (1, 0) | (2, 4) => { let half = if fam == 1 { 4 } else { 16 }; let (l, r) = body.split_at_mut(half); r[..half].copy_from_slice(l); }
        (1, 1) => { let p = [body[8], body[9]]; body[10..12].copy_from_slice(&p); }
        (1, 2) => { for b in body[..8].iter_mut() { *b = 0; } }
        (1, 3) | (2, 5) => { for b in body.iter_mut() { *b = 0xff; } }
        (3, 0) => { for b in body.iter_mut() { *b = 0; } body[1] = b'a'; body[109] = b'b'; }
        (3, 1) => { let (l, r) = body.split_at_mut(108); r.copy_from_slice(l); }
        (3, 2) => { for (i, b) in body.iter_mut().enumerate() { *b = if i % 108 < 9 { b'/' + (i % 7) as u8 } else { 0 }; } }
        _ => {}
    }
    body
}

/// The i-th header of the halves grid (see `halves_block`).
pub fn halves_header(i: usize, rng: &mut Rng) -> Vec<u8> {
    let fam = 1 + (i % 3) as u8;
    let (src, dst) = ((i / 3) % 5, (i / 15) % 5);
    let mut body = halves_block(fam, src, dst, rng);
    if (i / 75) % 2 == 0 {
        body.extend_from_slice(&[4, 0, 2, 7, 7]);
    }
    v2_header(0x20 | (i % 2) as u8, (fam << 4) | (i % 3) as u8, body.len() as u16, &body)
}

pub fn random_v2_good(rng: &mut Rng) -> Vec<u8> {
    let vc = 0x20 | rng.below(2) as u8;
    let fam = rng.below(4) as u8;
    let afp = (fam << 4) | rng.below(3) as u8;
    let mut body = address_block(fam, rng);
    if !body.is_empty() && body.iter().all(|b| *b == body[0]) && rng.chance(1, 2) {
        // keep the whole payload uniform now and then (no TLVs, or padding of the same byte)
        let pad = rng.below(4) as usize;
        let fill = body[0];
        body.extend(std::iter::repeat(fill).take(pad));
    } else {
        body.extend(random_tlv_section(rng, 80));
    }
    v2_header(vc, afp, body.len() as u16, &body)
}

pub fn corrupt_v2(rng: &mut Rng) -> (Value, Vec<u8>) {
    let base = random_v2_good(rng);
    let mut bytes = base.clone();
    let elem = *rng.pick(&["sig", "version", "command", "family", "transport", "length"]);
    let mut idx = 0usize;
    let mut val = 0u64;
    match elem {
        "sig" => {
            idx = rng.below(12) as usize;
            let mut b = rng.next() as u8;
            if b == bytes[idx] {
                b ^= 1;
            }
            bytes[idx] = b;
            val = b as u64;
        }
        "version" => {
            let mut n = rng.below(16) as u8;
            if n == 2 {
                n = 3;
            }
            bytes[12] = (n << 4) | (bytes[12] & 0x0F);
            val = n as u64;
        }
        "command" => {
            let n = rng.range(2, 15) as u8;
            bytes[12] = (bytes[12] & 0xF0) | n;
            val = n as u64;
        }
        "family" => {
            let n = rng.range(4, 15) as u8;
            bytes[13] = (n << 4) | (bytes[13] & 0x0F);
            val = n as u64;
        }
        "transport" => {
            let n = rng.range(3, 15) as u8;
            bytes[13] = (bytes[13] & 0xF0) | n;
            val = n as u64;
        }
        _ => {
            let need = family_size(bytes[13] >> 4);
            if need > 0 {
                let l = rng.below(need as u64) as u16;
                bytes[14..16].copy_from_slice(&l.to_be_bytes());
                val = l as u64;
            }
        }
    }
    (json!({"g": "c12v2", "base": rl(&base), "elem": elem, "idx": idx + 1, "val": val}), bytes)
}

// ---------------------------------------------------------------------------------------------
// Generators, by name
// ---------------------------------------------------------------------------------------------

fn chunking(bytes: &[u8], rng: &mut Rng, each_bias: u64) -> Vec<Vec<u8>> {
    match rng.below(10) {
        x if x < each_bias => split_each(bytes),
        8 => vec![bytes.to_vec()],
        _ => split_random(bytes, rng),
    }
}

pub fn generate(name: &str, count: usize, rng: &mut Rng, sink: &mut dyn FnMut(Session)) {
    match name {
        // random lines meant to be well formed + trailer, every prefix visited most of the time
        "v1good" => {
            for i in 0..count {
                let toks = random_line_tokens(rng);
                let mut bytes = toks.concat();
                bytes.extend(random_trailer(rng));
                let chunks = chunking(&bytes, rng, 6);
                sink(Session { sid: format!("v1good-{}", i), tag: json!({"g": "v1good"}), chunks, huge: None, consume: false, inplace: false, prelude: Vec::new() });
            }
        }
        // single-element corruptions (C12 antecedent is re-derived by the specification)
        "v1corrupt" => {
            for i in 0..count {
                let toks = random_line_tokens(rng);
                let (tag, mut bytes) = corrupt_line(&toks, rng);
                if rng.chance(1, 3) {
                    bytes.extend(random_trailer(rng));
                }
                let chunks = if rng.chance(1, 3) { split_each(&bytes) } else { vec![bytes.clone()] };
                sink(Session { sid: format!("v1corrupt-{}", i), tag, chunks, huge: None, consume: false, inplace: false, prelude: Vec::new() });
            }
        }
        // structural damage: separators, line endings, truncation at field boundaries, length marks
        "v1struct" => {
            for i in 0..count {
                let mut toks = random_line_tokens(rng);
                let n = toks.len();
                match rng.below(12) {
                    0 => toks[n - 2] = vec![],                 // no CR: "...\n"
                    1 => { toks[n - 2] = b" ".to_vec(); }      // SP LF
                    2 => { toks[n - 1] = vec![]; }             // bare CR at end
                    3 => { toks[n - 2] = vec![]; toks[n - 1] = vec![]; } // no ending
                    4 => { let k = 1 + 2 * rng.below(((n - 3) / 2) as u64) as usize; if toks[k] == b" " { toks[k] = b"  ".to_vec(); } }
                    5 => { let k = 1 + 2 * rng.below(((n - 3) / 2) as u64) as usize; if toks[k] == b" " { toks[k] = rng.pick(&[&b"\t"[..], &b"\r"[..], &b"\n"[..], &b"\r\n"[..], &b"\x00"[..], &b","[..]]).to_vec(); } }
                    6 => { let k = rng.range(1, (n - 2) as u64) as usize; toks.truncate(k); toks.push(b"\r".to_vec()); toks.push(b"\n".to_vec()); }
                    7 => { let k = rng.range(1, (n - 2) as u64) as usize; toks.truncate(k); toks.push(b"\r".to_vec()); toks.push(vec![*rng.pick(b"XP5 \r\x00")]); }
                    8 => { toks.insert(n - 2, b" ".to_vec()); }
                    9 => { toks.insert(n - 2, b" extra".to_vec()); }
                    10 => { toks[n - 2] = b"\r\r".to_vec(); }
                    _ => { toks[n - 1] = "\u{e9}".as_bytes().to_vec(); }
                }
                let mut bytes = toks.concat();
                if rng.chance(1, 2) {
                    bytes.extend(random_trailer(rng));
                }
                let chunks = chunking(&bytes, rng, 5);
                sink(Session { sid: format!("v1struct-{}", i), tag: json!({"g": "v1struct"}), chunks, huge: None, consume: false, inplace: false, prelude: Vec::new() });
            }
        }
        // byte-level mutation of lines meant to be well formed: 1-3 random edits (insert / delete /
        // replace / duplicate) with bytes that matter to the grammar; what the result is, the
        // specification decides
        "v1mutate" => {
            let interesting: &[u8] = b" \r\n\t\x00+-0159:.,aAfFgPT\xff\xc3\xa9\x7f";
            for i in 0..count {
                let mut bytes = random_line_tokens(rng).concat();
                let edits = 1 + rng.below(3) as usize;
                for _ in 0..edits {
                    if bytes.is_empty() {
                        break;
                    }
                    let pos = rng.below(bytes.len() as u64 + 1) as usize;
                    match rng.below(5) {
                        0 => bytes.insert(pos.min(bytes.len()), *rng.pick(interesting)),
                        1 => { if pos < bytes.len() { bytes.remove(pos); } }
                        2 => { if pos < bytes.len() { bytes[pos] = *rng.pick(interesting); } }
                        3 => { if pos < bytes.len() { let b = bytes[pos]; bytes.insert(pos, b); } }
                        _ => { if pos + 1 < bytes.len() { bytes.swap(pos, pos + 1); } }
                    }
                }
                if rng.chance(1, 3) {
                    bytes.extend(random_trailer(rng));
                }
                let chunks = chunking(&bytes, rng, 4);
                sink(Session { sid: format!("v1mutate-{}", i), tag: json!({"g": "v1mutate"}), chunks, huge: None, consume: false, inplace: false, prelude: Vec::new() });
            }
        }
        // byte-level mutation of binary headers meant to be well formed
        "v2mutate" => {
            for i in 0..count {
                let mut bytes = random_v2_good(rng);
                let edits = 1 + rng.below(3) as usize;
                for _ in 0..edits {
                    let n = bytes.len();
                    // edits concentrate on the fixed part and the first bytes of the payload
                    let pos = if rng.chance(3, 4) { rng.below(n.min(20) as u64) as usize } else { rng.below(n as u64) as usize };
                    match rng.below(5) {
                        0 => bytes[pos] ^= 1 << rng.below(8),
                        1 => bytes[pos] = *rng.pick(&[0u8, 1, 2, 3, 0x0f, 0x10, 0x20, 0x21, 0x22, 0x30, 0x31, 0x40, 0xff, 12, 36, 216]),
                        2 => { bytes.remove(pos); }
                        3 => bytes.insert(pos, rng.next() as u8),
                        _ => { let cut = rng.below(n as u64 + 1) as usize; bytes.truncate(cut.max(1)); }
                    }
                    if bytes.is_empty() {
                        bytes.push(13);
                    }
                }
                if rng.chance(1, 3) {
                    bytes.extend(random_trailer(rng));
                }
                let chunks = if bytes.len() > 120 { let n = bytes.len(); let cuts: Vec<usize> = (1..18).chain([n - 1, 231, 232, 233]).collect(); split_at(&bytes, &cuts) } else { chunking(&bytes, rng, 5) };
                sink(Session { sid: format!("v2mutate-{}", i), tag: json!({"g": "v2mutate"}), chunks, huge: None, consume: false, inplace: false, prelude: Vec::new() });
            }
        }
        // every truncation point of a line (token boundaries and inside tokens) x every way the
        // line can end there
        "v1trunc" => {
            let enders: [&[u8]; 12] = [b"\rX", b"\r\r", b"\r\n", b"\r", b"\n", b"", b"\r\r\n", b"\r ", b"\r\x00",
                                       "\r\u{e9}".as_bytes(), "\r\u{20ac}".as_bytes(), "\r\u{1F600}".as_bytes()];
            for i in 0..count {
                let toks = random_line_tokens(rng);
                let n = toks.len();
                for k in 0..(n - 1) {
                    // cut after token k, or in the middle of token k
                    let mut head: Vec<u8> = toks[..k].concat();
                    if rng.chance(1, 3) && !toks[k].is_empty() {
                        let part = rng.below(toks[k].len() as u64) as usize;
                        head.extend_from_slice(&toks[k][..part]);
                    }
                    let ender = enders[(i + k) % enders.len()];
                    let mut bytes = head;
                    bytes.extend_from_slice(ender);
                    if rng.chance(1, 3) {
                        bytes.extend_from_slice(b"more");
                    }
                    let chunks = if rng.chance(1, 2) { split_each(&bytes) } else { vec![bytes.clone()] };
                    sink(Session { sid: format!("v1trunc-{}-{}", i, k), tag: json!({"g": "v1trunc"}), chunks, huge: None, consume: false, inplace: false, prelude: Vec::new() });
                }
            }
        }
        // CR-free and CR-late inputs around the 107-byte limit
        "v1len" => {
            for i in 0..count {
                let total = rng.range(100, 120) as usize;
                let mut bytes = b"PROXY UNKNOWN ".to_vec();
                if rng.chance(1, 4) {
                    bytes = b"PROXY TCP4 1.1.1.1 ".to_vec();
                }
                if rng.chance(1, 6) {
                    bytes = vec![];
                }
                while bytes.len() < total {
                    bytes.push(*rng.pick(b"abc .:0"));
                }
                match rng.below(4) {
                    0 => {}
                    1 => { let p = *rng.pick(&[103usize, 104, 105, 105, 105, 106, 107, 108]); if p < bytes.len() { bytes[p] = b'\r'; if p + 1 < bytes.len() { bytes[p + 1] = b'\n'; } } }
                    2 => { bytes.extend_from_slice(b"\r\n"); }
                    _ => { let p = rng.range(104, 108) as usize; if p < bytes.len() { bytes.truncate(p); } bytes.extend_from_slice(b"\r\n"); }
                }
                // now and then a multi-byte character straddling the 104..=108 byte marks
                if rng.chance(1, 3) {
                    let at = rng.range(102, 108) as usize;
                    if at < bytes.len() && bytes[at..].iter().take(4).all(|b| *b != b'\r' && *b != b'\n') {
                        let ch = rng.pick(&["\u{e9}", "\u{20ac}", "\u{1F600}"]).as_bytes();
                        let end = (at + ch.len()).min(bytes.len());
                        bytes.splice(at..end, ch.iter().cloned());
                    }
                }
                let cuts: Vec<usize> = (100..bytes.len().min(112)).collect();
                let chunks = split_at(&bytes, &cuts);
                sink(Session { sid: format!("v1len-{}", i), tag: json!({"g": "v1len"}), chunks, huge: None, consume: false, inplace: false, prelude: Vec::new() });
            }
        }
        // VALID TCP6 lines of an exact total length 98..=107 (address spellings chosen to hit it:
        // full-width groups, the 45-byte dotted-quad form on either side, 1-5 digit ports),
        // delivered one byte at a time, sometimes followed by a trailer
        "v1max" => {
            let wide = |rng: &mut Rng, v4tail: bool| -> String {
                let digits = |rng: &mut Rng, w: usize| -> String {
                    (0..w).map(|i| if i == 0 { *rng.pick(b"123456789abcdefABCDEF") as char } else { *rng.pick(b"0123456789abcdefABCDEF") as char }).collect()
                };
                let n = if v4tail { 6 } else { 8 };
                let mut parts: Vec<String> = (0..n).map(|_| { let w = *rng.pick(&[4usize, 4, 4, 4, 3, 2, 1]); digits(rng, w) }).collect();
                if v4tail {
                    let q: Vec<String> = (0..4).map(|_| format!("{}", rng.pick(&[255u8, 200, 199, 100, 99, 10, 9, 0]))).collect();
                    parts.push(q.join("."));
                }
                parts.join(":")
            };
            // (total length, digits of the source port, digits of the destination port): the longest
            // lines first, every combination of port widths
            let mut combos: Vec<(usize, usize, usize)> = Vec::new();
            for target in [107usize, 106, 105, 104, 103, 100, 98] {
                for sd in 1..=5usize {
                    for dd in 1..=5usize {
                        combos.push((target, sd, dd));
                    }
                }
            }
            let mut i = 0;
            let mut tries = 0;
            while i < count && tries < count * 6000 {
                tries += 1;
                let (target, sd, dd) = combos[i % combos.len()];
                let shape = rng.below(4);
                let src = wide(rng, shape == 0 || shape == 2);
                let dst = wide(rng, shape == 1 || shape == 2);
                let port = |rng: &mut Rng, digits: usize| -> String {
                    match digits { 5 => if rng.chance(1, 2) { "65535".to_string() } else { format!("{}", 10000 + rng.below(55536)) }, 4 => format!("{}", 1000 + rng.below(9000)), 3 => format!("{}", 100 + rng.below(900)), 2 => format!("{}", 10 + rng.below(90)), _ => format!("{}", rng.below(10)) }
                };
                let line = format!("PROXY TCP6 {} {} {} {}\r\n", src, dst, port(rng, sd), port(rng, dd));
                if line.len() != target {
                    continue;
                }
                let mut bytes = line.into_bytes();
                match rng.below(4) {
                    0 => bytes.extend_from_slice(b"GET / HTTP/1.1\r\n"),
                    1 => bytes.extend_from_slice(b"\r\n"),
                    _ => {}
                }
                let chunks = split_each(&bytes);
                sink(Session { sid: format!("v1max-{}", i), tag: json!({"g": "v1max", "len": target}), chunks, huge: None, consume: false, inplace: false, prelude: Vec::new() });
                i += 1;
            }
        }
        // every byte value next to the structural bytes of a line: as the last byte of UNKNOWN text
        // (right before the CR), as its first byte (right after the space), and as the last byte
        // of a TCP4 line's final field, with the CR at every position modulo 8 and with / without
        // a trailer (so that a word-at-a-time search sees the pair in one word). count >= 6144
        // means every combination, otherwise an evenly spaced, seed-shifted selection
        "v1adj" => {
            let mut combos: Vec<(u8, usize, usize)> = Vec::new();
            let quick: [u8; 16] = [0x00, 0x01, 0x09, 0x0A, 0x0B, 0x0C, 0x0E, 0x1F, 0x20, 0x21, 0x7F, 0x80, 0xA9, 0xBF, 0xC3, 0xFF];
            let values: Vec<u8> = if count >= 6144 { (0..=255u8).collect() } else { quick.to_vec() };
            for b in values {
                for k in 0..8usize {
                    for place in 0..3usize {
                        combos.push((b, k, place));
                    }
                }
            }
            let total = combos.len();
            let take = count.min(total);
            let step = total as f64 / take as f64;
            let off = (rng.below(97) as f64) / 97.0 * step;
            for i in 0..take {
                let (b, k, place) = combos[((off + i as f64 * step) as usize).min(total - 1)];
                // a continuation byte gets a lead byte in front of it so that the text is valid UTF-8
                let unit: Vec<u8> = if (0x80..0xC0).contains(&b) { vec![if b < 0xA0 { 0xC2 } else { 0xC3 }, b] } else { vec![b] };
                let pad: Vec<u8> = (0..k).map(|j| b'a' + j as u8).collect();
                let mut bytes: Vec<u8> = Vec::new();
                match place {
                    0 => { bytes.extend_from_slice(b"PROXY UNKNOWN "); bytes.extend(&pad); bytes.extend(&unit); }
                    1 => { bytes.extend_from_slice(b"PROXY UNKNOWN "); bytes.extend(&unit); bytes.extend(&pad); }
                    _ => { bytes.extend_from_slice(b"PROXY TCP4 1.2.3.4 5.6.7.8 9 1"); bytes.extend(&pad.iter().map(|_| b'0').collect::<Vec<u8>>()); bytes.extend(&unit); }
                }
                let cr = bytes.len();
                bytes.extend_from_slice(b"\r\n");
                if i % 2 == 0 {
                    bytes.extend_from_slice(b"GET / HTTP/1.1\r\n");
                }
                let chunks = split_at(&bytes, &[cr.saturating_sub(1), cr, cr + 1, cr + 2]);
                sink(Session { sid: format!("v1adj-{}", i), tag: json!({"g": "v1adj", "b": b, "k": k, "place": place}), chunks, huge: None, consume: false, inplace: false, prelude: Vec::new() });
            }
        }
        // lenient-parser forms: a VALID line in which one address or port is decorated the way
        // permissive parsers tolerate (brackets, zone, prefix length, port suffix, sign, padding,
        // white space, quotes, other radices, other digit sets). All of them, every time; tagged as
        // single-element corruptions so that the specification decides which of them qualify for
        // C12 (C01 speaks about every one of them)
        "v1lenient" => {
            let addr_decor: [(&str, &str); 18] = [("[", "]"), ("", "%eth0"), ("", "%1"), ("", "/32"), ("", ":80"), ("+", ""), ("0", ""),
                ("", "."), ("<", ">"), ("\"", "\""), ("(", ")"), (" ", ""), ("", "\t"), ("\t", ""), ("", "\0"), ("", "\n"), ("[", ""), ("", "]")];
            let port_decor: [(&str, &str); 12] = [("+", ""), ("0", ""), ("", " "), ("", "\t"), ("0x", ""), ("", "."), ("", ","), ("\t", ""),
                ("", "\0"), ("-", ""), ("", "e0"), ("", "_")];
            let fixed4: [&str; 8] = ["0x7f.0.0.1", "0177.0.0.1", "127.1", "2130706433", "1.2.3.4.", "\u{661}.2.3.4", "1.2.3.\u{ff14}", "::ffff:1.2.3.4"];
            let fixed_port: [&str; 26] = ["\u{ff18}\u{ff10}", "\u{661}\u{662}", "8 0", "0x50", "00", "000", "00000", "0000000",
                "00000000000000000080", "000000000000000000080", "0000000000000000000000000000000000000443", "+00000000000000000001", "000000000000000000000", "00000000000000000000000065535",
                "65616", "131072", "4294967296", "4294967376", "8589934592", "4295032831", "18446744073709551616", "18446744073709551696", "2147483648", "4294967295", "99999", "100000"];
            let mut i = 0;
            let mut emit = |toks: &[Vec<u8>], idx: usize, elem: &str, repl: Vec<u8>, sink: &mut dyn FnMut(Session)| {
                let base: Vec<u8> = toks.concat();
                let mut t2 = toks.to_vec();
                t2[idx] = repl.clone();
                let mut bytes = t2.concat();
                if i % 3 == 0 {
                    bytes.extend_from_slice(b"GET / HTTP/1.1\r\n");
                }
                let tag = json!({"g": "c12v1", "base": flat(&base), "elem": elem, "repl": flat(&repl)});
                sink(Session { sid: format!("v1lenient-{}", i), tag, chunks: vec![bytes], huge: None, consume: false, inplace: false, prelude: Vec::new() });
                i += 1;
            };
            for round in 0..count.max(1) {
                let _ = round;
                let t = |x: &str| x.as_bytes().to_vec();
                let l4: Vec<Vec<u8>> = vec![t("PROXY"), t(" "), t("TCP4"), t(" "), t("192.0.2.1"), t(" "), t("198.51.100.7"), t(" "), t("5555"), t(" "), t("443"), t("\r"), t("\n")];
                let l6: Vec<Vec<u8>> = vec![t("PROXY"), t(" "), t("TCP6"), t(" "), t("2001:db8::1"), t(" "), t("::1"), t(" "), t("80"), t(" "), t("65535"), t("\r"), t("\n")];
                for line in [&l4, &l6] {
                    for (idx, elem) in [(4usize, "src"), (6usize, "dst")] {
                        for (pre, post) in addr_decor.iter() {
                            let mut r = pre.as_bytes().to_vec();
                            r.extend_from_slice(&line[idx]);
                            r.extend_from_slice(post.as_bytes());
                            emit(line, idx, elem, r, &mut *sink);
                        }
                    }
                    for (idx, elem) in [(8usize, "sport"), (10usize, "dport")] {
                        for (pre, post) in port_decor.iter() {
                            let mut r = pre.as_bytes().to_vec();
                            r.extend_from_slice(&line[idx]);
                            r.extend_from_slice(post.as_bytes());
                            emit(line, idx, elem, r, &mut *sink);
                        }
                        for f in fixed_port.iter() {
                            emit(line, idx, elem, f.as_bytes().to_vec(), &mut *sink);
                        }
                    }
                }
                for f in fixed4.iter() {
                    emit(&l4, 4, "src", f.as_bytes().to_vec(), &mut *sink);
                    emit(&l4, 6, "dst", f.as_bytes().to_vec(), &mut *sink);
                }
                // the other family's valid address in an otherwise valid line
                emit(&l4, 4, "src", b"2001:db8::1".to_vec(), &mut *sink);
                emit(&l6, 6, "dst", b"192.0.2.1".to_vec(), &mut *sink);
            }
        }
        // UNKNOWN lines whose free text is made of the protocol's own vocabulary (keywords, their
        // prefixes, a whole header line) at the start, in the middle and at the END of the text:
        // every single word and every ordered pair, whole and one byte per read
        "v1words" => {
            let words: [&str; 12] = ["PROXY", "PROX", "P", "UNKNOWN", "UNKN", "U", "TCP4", "TCP6", "T", "PROXY UNKNOWN", "PROXY TCP4 1.2.3.4 5.6.7.8 1 2", "x"];
            let mut texts: Vec<String> = Vec::new();
            for a in words.iter() {
                texts.push(format!(" {}", a));
                for b in words.iter() {
                    texts.push(format!(" {} {}", a, b));
                }
            }
            for a in ["PROXY", "UNKNOWN", "TCP4"] {
                texts.push(format!(" x{}", a));
                texts.push(format!(" {}x", a));
                texts.push(format!(" {} ", a));
                texts.push(format!("  {}", a));
            }
            let total = texts.len();
            let take = count.min(total);
            let step = total as f64 / take as f64;
            let off = (rng.below(97) as f64) / 97.0 * step;
            for i in 0..take {
                let text = &texts[((off + i as f64 * step) as usize).min(total - 1)];
                let mut bytes = format!("PROXY UNKNOWN{}\r\n", text).into_bytes();
                if bytes.len() > 107 {
                    continue;
                }
                if i % 3 == 0 {
                    bytes.extend_from_slice(b"PROXY");
                }
                let chunks = if i % 2 == 0 { split_each(&bytes) } else { vec![bytes.clone()] };
                sink(Session { sid: format!("v1words-{}", i), tag: json!({"g": "v1words"}), chunks, huge: None, consume: false, inplace: false, prelude: Vec::new() });
            }
        }
        // UNKNOWN text with characters that Unicode-aware helpers treat specially (White_Space that
        // trim() strips, line separators that lines() splits at, zero-width and bidi marks,
        // combining marks, noncharacters, the last scalar values before / after the surrogates):
        // at the end of the text, at its start, alone, and doubled
        "v1unicode" => {
            let specials: [char; 26] = ['\u{85}', '\u{a0}', '\u{1680}', '\u{2000}', '\u{2003}', '\u{200a}', '\u{2028}', '\u{2029}', '\u{202f}',
                '\u{205f}', '\u{3000}', '\u{200b}', '\u{feff}', '\u{301}', '\u{200f}', '\u{202e}', '\u{fffe}', '\u{ffff}', '\u{10ffff}', '\u{d7ff}',
                '\u{e000}', '\u{7ff}', '\u{800}', '\u{10000}', '\u{1c}', '\u{1f}'];
            let mut texts: Vec<String> = Vec::new();
            for c in specials.iter() {
                texts.push(format!(" abc{}", c));
                texts.push(format!(" {}abc", c));
                texts.push(format!(" {}", c));
                texts.push(format!("{}", c));
                texts.push(format!(" a{}{}", c, c));
                texts.push(format!(" a {} b", c));
            }
            let total = texts.len();
            let take = count.min(total);
            let step = total as f64 / take as f64;
            let off = (rng.below(97) as f64) / 97.0 * step;
            for i in 0..take {
                let text = &texts[((off + i as f64 * step) as usize).min(total - 1)];
                let mut bytes = format!("PROXY UNKNOWN{}\r\n", text).into_bytes();
                if i % 3 == 0 {
                    bytes.extend_from_slice("\u{2028}GET".as_bytes());
                }
                let chunks = if i % 2 == 0 { split_each(&bytes) } else { vec![bytes.clone()] };
                sink(Session { sid: format!("v1unicode-{}", i), tag: json!({"g": "v1unicode"}), chunks, huge: None, consume: false, inplace: false, prelude: Vec::new() });
            }
        }
        // a VALID TCP line with every string of up to four bytes over {SP, LF, 'x', CR} inserted
        // between the destination port and the CRLF (trailing separators, extra fields, stray line
        // feeds, an early CR): what may follow the last field is CRLF and nothing else
        "v1extra" => {
            let alphabet = [b' ', b'\n', b'x', b'\r'];
            let mut inserts: Vec<Vec<u8>> = Vec::new();
            for len in 1..=4usize {
                let n = 4usize.pow(len as u32);
                for code in 0..n {
                    let mut v = Vec::new();
                    let mut c = code;
                    for _ in 0..len {
                        v.push(alphabet[c % 4]);
                        c /= 4;
                    }
                    inserts.push(v);
                }
            }
            let total = inserts.len();
            let take = count.min(total);
            let step = total as f64 / take as f64;
            let off = (rng.below(97) as f64) / 97.0 * step;
            for i in 0..take {
                let ins = &inserts[((off + i as f64 * step) as usize).min(total - 1)];
                let mut bytes: Vec<u8> = if i % 2 == 0 { b"PROXY TCP4 127.0.0.1 192.168.1.1 80 443".to_vec() } else { b"PROXY TCP6 ::1 2001:db8::2 65535 1".to_vec() };
                bytes.extend_from_slice(ins);
                bytes.extend_from_slice(b"\r\n");
                if i % 3 == 0 {
                    bytes.extend_from_slice(b"GET / HTTP/1.0\r\n");
                }
                sink(Session { sid: format!("v1extra-{}", i), tag: json!({"g": "v1extra"}), chunks: vec![bytes], huge: None, consume: false, inplace: false, prelude: Vec::new() });
            }
        }
        // something in FRONT of an otherwise valid line: a byte order mark, white space, line ends,
        // NUL, zero-width characters, a TLS record header, another keyword - the line must start the input
        "v1prefix" => {
            let prefixes: [&[u8]; 22] = [b"\xef\xbb\xbf", b"\xff\xfe", b"\xfe\xff", b" ", b"\t", b"\r\n", b"\n", b"\r", b"\0", b"\xe2\x80\x8b", b"\xc2\xa0",
                b"\x16\x03\x01", b"\x1b[0m", b"HTTP ", b"PROXY ", b"PROX", b"P", b"\xef\xbb", b"\xef", b"\xef\xbb\xbf\xef\xbb\xbf", b"\x7f", b"\x00\x00\x00"];
            let lines: [&[u8]; 3] = [b"PROXY TCP4 192.0.2.1 198.51.100.7 5555 443\r\n", b"PROXY UNKNOWN\r\n", b"PROXY TCP6 ::1 2001:db8::2 1 65535\r\n"];
            let total = prefixes.len() * lines.len();
            for i in 0..count.min(total) {
                let mut bytes = prefixes[i % prefixes.len()].to_vec();
                bytes.extend_from_slice(lines[i / prefixes.len()]);
                if i % 4 == 0 { bytes.extend_from_slice(b"GET /"); }
                let chunks = if i % 2 == 0 { vec![bytes.clone()] } else { split_each(&bytes) };
                sink(Session { sid: format!("v1prefix-{}", i), tag: json!({"g": "v1prefix"}), chunks, huge: None, consume: false, inplace: false, prelude: Vec::new() });
            }
        }
        // well-known endpoints: one address per special range (loopback, private, link-local, CGNAT,
        // documentation, multicast, broadcast, unspecified, mapped, NAT64, 6to4, ULA ...) and
        // well-known ports, in both roles, as text lines (canonical spelling) and as binary headers
        "known" => {
            for i in 0..count {
                let (sp, dp) = (KNOWN_PORTS[i % 14], KNOWN_PORTS[(i / 14 + 3) % 14]);
                let bytes: Vec<u8> = match i % 4 {
                    0 => { let (a, b) = (KNOWN_V4[i / 4 % 24], KNOWN_V4[(i / 4 / 24 + i / 4 * 7 + 5) % 24]);
                           format!("PROXY TCP4 {}.{}.{}.{} {}.{}.{}.{} {} {}\r\n", a[0], a[1], a[2], a[3], b[0], b[1], b[2], b[3], sp, dp).into_bytes() }
                    1 => { let (a, b) = (KNOWN_V6[i / 4 % 18], KNOWN_V6[(i / 4 * 5 + 7) % 18]);
                           format!("PROXY TCP6 {} {} {} {}\r\n", std::net::Ipv6Addr::from(a), std::net::Ipv6Addr::from(b), sp, dp).into_bytes() }
                    2 => { let (a, b) = (KNOWN_V4[i / 4 % 24], KNOWN_V4[(i / 4 * 7 + 5) % 24]);
                           let mut body = a.to_vec(); body.extend_from_slice(&b); body.extend_from_slice(&sp.to_be_bytes()); body.extend_from_slice(&dp.to_be_bytes());
                           if i % 8 == 2 { body.extend_from_slice(&[4, 0, 1, 0]); }
                           v2_header(0x20 | ((i / 8) % 2) as u8, 0x10 | (1 + (i / 16) % 2) as u8, body.len() as u16, &body) }
                    _ => { let (a, b) = (KNOWN_V6[i / 4 % 18], KNOWN_V6[(i / 4 * 5 + 7) % 18]);
                           let mut body: Vec<u8> = a.iter().flat_map(|g| g.to_be_bytes()).collect(); body.extend(b.iter().flat_map(|g| g.to_be_bytes()));
                           body.extend_from_slice(&sp.to_be_bytes()); body.extend_from_slice(&dp.to_be_bytes());
                           v2_header(0x21, 0x20 | (1 + (i / 16) % 2) as u8, body.len() as u16, &body) }
                };
                let chunks = if i % 5 == 0 { split_each(&bytes) } else { vec![bytes.clone()] };
                sink(Session { sid: format!("known-{}", i), tag: json!({"g": "known"}), chunks, huge: None, consume: false, inplace: false, prelude: Vec::new() });
            }
        }
        // a multi-byte character of every width (2, 3, 4 bytes) starting at every offset 100..=110,
        // with no CR at all / a CRLF right after it / a CRLF far behind it / the line cut right after it
        "v1straddle" => {
            let chars = ["\u{e9}", "\u{20ac}", "\u{1F600}"];
            let mut combos: Vec<(usize, usize, usize)> = Vec::new();
            for w in 0..3usize { for o in 100..=110usize { for tail in 0..7usize { combos.push((w, o, tail)); } } }
            for i in 0..count.min(combos.len()) {
                let (w, o, tail) = combos[i];
                let mut bytes = if i % 2 == 0 { b"PROXY UNKNOWN ".to_vec() } else { b"PROXY TCP4 1.2.3.4 ".to_vec() };
                while bytes.len() < o { bytes.push(b'a' + (bytes.len() % 23) as u8); }
                // tails 4..: the character comes right AFTER a CR that stands at offset o
                if tail >= 4 { bytes.push(b'\r'); }
                bytes.extend_from_slice(chars[w].as_bytes());
                match tail {
                    0 | 4 => {}
                    1 => bytes.extend_from_slice(b"\r\n"),
                    2 => { bytes.extend_from_slice(b"bcdefghijklmnop\r\nGET"); }
                    5 => bytes.extend_from_slice(b"\n"),
                    _ => { bytes.extend_from_slice(b"xyz"); }
                }
                let n = bytes.len();
                let chunks = if i % 3 == 0 { vec![bytes.clone()] } else { split_at(&bytes, &[o - 1, o, o + 1, o + 2, o + 3, o + 4, n - 1]) };
                sink(Session { sid: format!("v1straddle-{}", i), tag: json!({"g": "v1straddle"}), chunks, huge: None, consume: false, inplace: false, prelude: Vec::new() });
            }
        }
        // address TEXTS that hand-written parsers get wrong, each as the source and as the destination
        // field of a TCP4 and of a TCP6 line (the specification's grammar decides which are valid),
        // plus randomly damaged spellings; all of the fixed list on every run
        "v1ipfield" => {
            let tricky: [&str; 64] = ["1::", "::1", "::", "1::2::3", "1:2:3:4:5:6:7::", "::2:3:4:5:6:7:8", "1:2:3:4:5:6:7:8", "1:2:3:4:5:6:1.2.3.4", "::1.2.3.4",
                "1.2.3.4::", "::ffff:1.2.3.4", "0:0:0:0:0:0:0:0", "00001::", "0001::", "1::00000", "ffff::", "FFFF::", "fFfF::aBcD", "1:2:3:4:5:6:7", "1:2:3:4:5:6:7:8:9",
                ":1", "1:", ":::", "::1.2.3", "::1.2.3.256", "::01.2.3.4", "1.2.3.4", "1.2.3", "1.2.3.4.5", "01.2.3.4", "1.2.3.04", "256.1.1.1", "1.1.1.256", "0.0.0.0",
                "255.255.255.255", "1..2.3", ".1.2.3", "1.2.3.", "0x1.2.3.4", "1:2:3:4:5:6:7:1.2.3.4", "1:2:3:4:5:1.2.3.4", "::1:2:3:4:5:6:7", "1:2:3:4:5:6:7::8", "1::8",
                "1:0:0:0:0:0:0:8", "0:0:1::", "::0", "0::0", "::0.0.0.0", "::255.255.255.255", "g::", "1::g", "1:::2", "12345::1", "1::12345", "::1%1", "1:2:3:4::5:6:7:8",
                "1:2:3::4:5:6:7:8", "::ffff:256.1.1.1", "::ffff:1.2.3", "1.2.3.4:80", "-1.2.3.4", "1.2.3.-4", "1.2.3.4e0"];
            let mut texts: Vec<String> = tricky.iter().map(|x| x.to_string()).collect();
            // every SHAPE of an IPv6 text: k groups, optionally `::`, m groups, optionally a dotted tail
            // (k, m in 0..=8): the grammar decides which of them exist
            for k in 0..=8usize {
                for m in 0..=8usize {
                    for dc in [false, true] {
                        for tail in [false, true] {
                            let left: Vec<String> = (0..k).map(|g| format!("{:x}", g + 1)).collect();
                            let mut right: Vec<String> = (0..m).map(|g| format!("{:x}", g + 0xa)).collect();
                            if tail { right.push("1.2.3.4".to_string()); }
                            let t = if dc { format!("{}::{}", left.join(":"), right.join(":")) } else { let mut all = left.clone(); all.extend(right.clone()); all.join(":") };
                            if t.len() <= 50 { texts.push(t); }
                        }
                    }
                }
            }
            for _ in 0..count {
                let mut t = render_ipv6(random_groups(rng), rng);
                if !t.is_empty() && rng.chance(2, 3) {
                    let p = rng.below(t.len() as u64) as usize;
                    match rng.below(4) {
                        0 => { t.remove(p); }
                        1 => t.insert(p, *rng.pick(&[':', '0', '.', 'g', 'F'])),
                        2 => { t.truncate(p); }
                        _ => { t = t.to_uppercase(); }
                    }
                }
                texts.push(t);
            }
            for (i, t) in texts.iter().enumerate() {
                for variant in 0..4usize {
                    let (proto, other) = if variant < 2 { ("TCP4", "10.0.0.1") } else { ("TCP6", "2001:db8::1") };
                    let line = if variant % 2 == 0 { format!("PROXY {} {} {} 1 2\r\n", proto, t, other) } else { format!("PROXY {} {} {} 65535 0\r\n", proto, other, t) };
                    let bytes = line.into_bytes();
                    sink(Session { sid: format!("v1ipfield-{}-{}", i, variant), tag: json!({"g": "v1ipfield"}), chunks: vec![bytes], huge: None, consume: false, inplace: false, prelude: Vec::new() });
                }
            }
        }
        // RELATION between what precedes the first CR and what follows it: every prefix of the keyword
        // and of the protocol names as the last token before the CR (alone or after further fields),
        // followed by the same letters again, by its first letter, by a whole header, by LF, by another byte
        "v1crsame" => {
            let heads: [&str; 17] = ["P", "PR", "PRO", "PROX", "PROXY", "PROXY T", "PROXY TC", "PROXY TCP", "PROXY TCP4", "PROXY U", "PROXY UN", "PROXY UNKNOW",
                "PROXY UNKNOWN", "P x", "PROXY TCP4 1.2.3.4 T", "PROXY TCP6 ::1 ::2 8 P", "PROXY UNKNOWN P"];
            let mut combos: Vec<(usize, usize)> = Vec::new();
            for h in 0..heads.len() { for f in 0..7usize { combos.push((h, f)); } }
            for i in 0..count.min(combos.len()) {
                let (h, f) = combos[i];
                let head = heads[h];
                let last = head.rsplit(' ').next().unwrap_or(head);
                let first_letter = &last[..1];
                let follow: String = match f {
                    0 => last.to_string(),
                    1 => first_letter.to_string(),
                    2 => format!("{}ROXY TCP4 1.2.3.4 5.6.7.8 1 2\r\n", if first_letter == "P" { "P" } else { first_letter }),
                    3 => "\n".to_string(),
                    4 => "\r".to_string(),
                    5 => "x".to_string(),
                    _ => format!("\n{}", last),
                };
                let bytes = format!("{}\r{}", head, follow).into_bytes();
                let chunks = if i % 2 == 0 { vec![bytes.clone()] } else { split_each(&bytes) };
                sink(Session { sid: format!("v1crsame-{}", i), tag: json!({"g": "v1crsame"}), chunks, huge: None, consume: false, inplace: false, prelude: Vec::new() });
            }
        }
        // arbitrary bytes over small alphabets, incl. multi-byte characters next to CR
        "v1junk" => {
            let pieces: [&[u8]; 14] = [b"P", b"PROXY", b" ", b"\r", b"\n", "\u{e9}".as_bytes(), "\u{20ac}".as_bytes(), "\u{1F600}".as_bytes(), b"UNKNOWN", b"TCP4", b"1", b"\xff", b"\x00", b"::"];
            for i in 0..count {
                let n = rng.below(9) as usize;
                let mut bytes = Vec::new();
                for _ in 0..n {
                    bytes.extend_from_slice(*rng.pick(&pieces));
                }
                let chunks = chunking(&bytes, rng, 3);
                sink(Session { sid: format!("v1junk-{}", i), tag: json!({"g": "v1junk"}), chunks, huge: None, consume: false, inplace: false, prelude: Vec::new() });
            }
        }
        // text with a multi-byte character right after the first CR, all accepted-line shapes
        "v1cr" => {
            let chars = ["\u{e9}", "\u{20ac}", "\u{1F600}", "\n", "X"];
            for i in 0..count {
                let toks = random_line_tokens(rng);
                let n = toks.len();
                let k = rng.range(0, (n - 2) as u64) as usize;
                let mut bytes = toks[..k].concat();
                if rng.chance(1, 2) {
                    bytes.extend_from_slice(rng.pick(&chars).as_bytes());
                }
                bytes.push(b'\r');
                bytes.extend_from_slice(rng.pick(&chars).as_bytes());
                if rng.chance(1, 2) {
                    bytes.extend_from_slice(b"tail\r\n");
                }
                let chunks = chunking(&bytes, rng, 4);
                sink(Session { sid: format!("v1cr-{}", i), tag: json!({"g": "v1cr"}), chunks, huge: None, consume: false, inplace: false, prelude: Vec::new() });
            }
        }
        "v2good" => {
            for i in 0..count {
                let mut bytes = random_v2_good(rng);
                bytes.extend(random_trailer(rng));
                let chunks = if bytes.len() > 120 {
                    let n = bytes.len();
                    let mut cuts: Vec<usize> = (1..18).collect();
                    cuts.extend([n - 2, n - 1, 16 + 216, 16 + 215, 16 + 217]);
                    split_at(&bytes, &cuts)
                } else {
                    chunking(&bytes, rng, 6)
                };
                sink(Session { sid: format!("v2good-{}", i), tag: json!({"g": "v2good"}), chunks, huge: None, consume: false, inplace: false, prelude: Vec::new() });
            }
        }
        // the grid family x class of the source half x class of the destination half (all zero, all
        // ones, a short name / small value, arbitrary non-zero bytes), each with a small TLV tail
        "v2halves" => {
            for i in 0..count {
                let bytes = halves_header(i, rng);
                let chunks = if i % 2 == 0 { vec![bytes.clone()] } else { chunking(&bytes, rng, 4) };
                sink(Session { sid: format!("v2halves-{}", i), tag: json!({"g": "v2halves"}), chunks, huge: None, consume: false, inplace: false, prelude: Vec::new() });
            }
        }
        "v2corrupt" => {
            for i in 0..count {
                let (tag, bytes) = corrupt_v2(rng);
                let chunks = if rng.chance(1, 4) && bytes.len() < 100 { split_each(&bytes) } else { vec![bytes.clone()] };
                sink(Session { sid: format!("v2corrupt-{}", i), tag, chunks, huge: None, consume: false, inplace: false, prelude: Vec::new() });
            }
        }
        // an accepted header followed by more than 64 KiB in the same buffer
        "bigtrail" => {
            for i in 0..count {
                let mut bytes = if i % 3 == 2 { random_line_tokens(rng).concat() } else { random_v2_good(rng) };
                let hl = bytes.len();
                let extra = *rng.pick(&[65535usize, 65536, 65537, 70000, 131072]);
                let fill = rng.next() as u8;
                bytes.extend(std::iter::repeat(fill).take(extra));
                let n = bytes.len();
                let chunks = split_at(&bytes, &[hl.saturating_sub(1), hl, hl + 1, hl + 65535, hl + 65536, n - 1]);
                sink(Session { sid: format!("bigtrail-{}", i), tag: json!({"g": "bigtrail"}), chunks, huge: None, consume: false, inplace: false, prelude: Vec::new() });
            }
        }
        // buffers of 4 GiB and more: a head (complete v2 header, v2 header with part of its
        // payload, v1 line, truncated v1 line) followed by zero bytes up to a total length whose
        // low 32 bits are small - where a length squeezed into 32 bits goes wrong
        "huge" => {
            for i in 0..count {
                let kind = i % 4;
                let (head, need): (Vec<u8>, usize) = match kind {
                    0 | 1 => {
                        let mut h = random_v2_good(rng);
                        while h.len() > 1200 {
                            h = random_v2_good(rng);
                        }
                        let full = h.len();
                        if kind == 1 && full > 17 {
                            let keep = 16 + rng.below((full - 16) as u64) as usize;
                            h.truncate(keep);
                        }
                        (h, full)
                    }
                    2 => {
                        let l = random_line_tokens(rng).concat();
                        let n = l.len();
                        (l, n)
                    }
                    _ => {
                        let l = random_line_tokens(rng).concat();
                        let keep = rng.below(l.len() as u64 + 1) as usize;
                        (l[..keep].to_vec(), 0)
                    }
                };
                // total = 16 + k * 2^32 + j with j around 0 and around the declared length
                let decl = need.saturating_sub(16) as u64;
                let j = *rng.pick(&[0u64, 1, decl.saturating_sub(1), decl, decl + 1, 15, 16, 17]);
                let k = 1 + rng.below(2);
                let total = 16 + (k << 32) + j;
                let pad = total - head.len() as u64;
                let m = need.max(head.len()) - head.len() + 130;
                sink(Session { sid: format!("huge-{}", i), tag: json!({"g": "huge"}), chunks: vec![head], huge: Some((pad, m)), consume: false, inplace: false, prelude: Vec::new() });
            }
        }
        // pipelined headers: two to four headers (text and binary mixed) back to back, followed by
        // application bytes, arbitrary read boundaries, consumed by a receiver as they are accepted
        "pipe" => {
            for i in 0..count {
                let k = 2 + rng.below(3) as usize;
                let mut bytes = Vec::new();
                for _ in 0..k {
                    if rng.chance(1, 2) {
                        bytes.extend(random_line_tokens(rng).concat());
                    } else {
                        let mut h = random_v2_good(rng);
                        while h.len() > 600 {
                            h = random_v2_good(rng);
                        }
                        bytes.extend(h);
                    }
                }
                match rng.below(4) {
                    0 => bytes.extend_from_slice(b"GET / HTTP/1.1\r\n\r\n"),
                    1 => bytes.extend_from_slice(b"PROXY"),
                    2 => bytes.extend_from_slice(&[0x0D, 0x0A, 0x0D, 0x0A, 0x00]),
                    _ => {}
                }
                let chunks = match rng.below(3) {
                    0 => vec![bytes.clone()],
                    1 => split_each(&bytes),
                    _ => split_random(&bytes, rng),
                };
                sink(Session { sid: format!("pipe-{}", i), tag: json!({"g": "pipe"}), chunks, huge: None, consume: true, inplace: false, prelude: Vec::new() });
            }
        }
        // one read buffer reused for consecutive connections (same allocation, parsed in place):
        // a header cut inside its TLV section, then - in the same buffer - another complete header
        // with the same fixed part and OTHER addresses / TLVs; and the text analogue
        "reuse" => {
            for i in 0..count {
                let fam = 1 + (i % 3) as u8;
                let a = address_block(fam, rng);
                let mut b = address_block(fam, rng);
                if a == b { b[0] ^= 0x55; }
                let tail: Vec<u8> = vec![4, 0, 3, 1, 2, 3, 0x20, 0, 1, 9];
                let mk = |addr: &Vec<u8>, fill: u8| -> Vec<u8> { let mut body = addr.clone(); body.extend(tail.iter().map(|x| x ^ fill)); let mut t = body.clone(); t[addr.len()] = 4; t[addr.len() + 1] = 0; t[addr.len() + 2] = 3; t[addr.len() + 6] = 0x20; t[addr.len() + 7] = 0; t[addr.len() + 8] = 1; v2_header(0x21, (fam << 4) | 1, t.len() as u16, &t) };
                let first = mk(&a, 0);
                let second = mk(&b, 0x40);
                let cut = 16 + a.len() + 1 + rng.below(tail.len() as u64 - 1) as usize;
                let (s1, s2): (Vec<Vec<u8>>, Vec<Vec<u8>>) = if i % 4 == 3 {
                    (vec![b"PROXY TCP4 1.2.3.4 5.6.7.8 1".to_vec()], vec![b"PROXY TCP4 9.9.9.9 8.8.8.8 65535 2\r\n".to_vec()])
                } else {
                    (vec![first[..cut].to_vec()], vec![second])
                };
                let prelude: Vec<u8> = s1.concat();
                sink(Session { sid: format!("reuse-{}", i), tag: json!({"g": "reuse"}), chunks: s2, huge: None, consume: false, inplace: true, prelude });
            }
        }
        // control-byte pairs: count >= 65536 means all of them, otherwise axis-aligned + random
        "v2ctrl" => {
            let mut pairs: Vec<(u8, u8)> = Vec::new();
            if count >= 65536 {
                for a in 0..=255u8 {
                    for b in 0..=255u8 {
                        pairs.push((a, b));
                    }
                }
            } else {
                for a in 0..=255u8 {
                    pairs.push((a, 0x11));
                    pairs.push((0x21, a));
                }
                while pairs.len() < count.max(512) {
                    pairs.push((rng.next() as u8, rng.next() as u8));
                }
            }
            for (i, (vc, afp)) in pairs.into_iter().enumerate() {
                let need = family_size(afp >> 4);
                let lens: Vec<usize> = if afp >> 4 <= 3 && need > 0 { vec![need - 1, need, need + 5] } else { vec![0, 12, 216] };
                let l = lens[i % 3];
                let body = distinct_body(l, rng);
                let bytes = v2_header(vc, afp, l as u16, &body);
                sink(Session { sid: format!("v2ctrl-{}", i), tag: json!({"g": "v2ctrl"}), chunks: vec![bytes], huge: None, consume: false, inplace: false, prelude: Vec::new() });
            }
        }
        // the grid of command x family x transport x length relation: every version/command byte a
        // peer may plausibly send, every family 0..4 with every transport 0..3, and a declared length
        // of 0 / 1 / one below / exactly / above the family's block size - with all of it present
        "v2grid" => {
            let mut cases: Vec<(u8, u8, usize)> = Vec::new();
            for vc in [0x20u8, 0x21, 0x22, 0x11] {
                for fam in 0..=4u8 {
                    for proto in 0..=3u8 {
                        let need = family_size(fam);
                        let mut lens = vec![0usize, 1, need + 1, need + 7];
                        if need > 0 { lens.push(need - 1); lens.push(need); }
                        for l in lens { cases.push((vc, (fam << 4) | proto, l)); }
                    }
                }
            }
            for (i, (vc, afp, l)) in cases.into_iter().enumerate().take(count) {
                let body = distinct_body(l, rng);
                let bytes = v2_header(vc, afp, l as u16, &body);
                sink(Session { sid: format!("v2grid-{}", i), tag: json!({"g": "v2grid"}), chunks: vec![bytes], huge: None, consume: false, inplace: false, prelude: Vec::new() });
            }
        }
        // declared length vs bytes present
        "v2len" => {
            let mut lens: Vec<usize> = (0..=300).collect();
            for k in 9..16 {
                lens.extend([(1usize << k) - 1, 1 << k, (1 << k) + 1]);
            }
            lens.extend([65534, 65535]);
            // the largest declared lengths, with the bytes present at every interesting relation
            // to 16 + length and to the 65535 mark
            let mut forced: Vec<(usize, usize)> = Vec::new();
            for l in [65519usize, 65520, 65534, 65535] {
                for have in [l - 1, l, l + 1, 65535 - 16, 65535 - 17] {
                    forced.push((l, have));
                }
            }
            let nforced = if count >= 2000 { forced.len() } else { 10 };
            let start = rng.below(forced.len() as u64) as usize;
            for i in 0..count {
                let (l, forced_have) = if i < nforced {
                    let f = forced[(start + i * 3) % forced.len()];
                    (f.0, Some(f.1))
                } else if i - nforced < lens.len() && count >= lens.len() {
                    (lens[i - nforced], None)
                } else {
                    (*rng.pick(&lens), None)
                };
                let big = l > 4000;
                if big && forced_have.is_none() && i % 8 != 0 && count < 2000 {
                    continue;
                }
                let vc = 0x20 | rng.below(2) as u8;
                let fam = rng.below(4) as u8;
                let afp = (fam << 4) | rng.below(3) as u8;
                let have = match forced_have {
                    Some(h) => h,
                    None => match rng.below(5) {
                        0 => l.saturating_sub(1),
                        1 => l,
                        2 => l + 1,
                        3 => rng.below(l as u64 + 1) as usize,
                        _ => l,
                    },
                };
                let fill = rng.next() as u8;
                let mut body: Vec<u8> = distinct_body(have.min(240), rng);
                while body.len() < have {
                    body.push(fill);
                }
                let bytes = v2_header(vc, afp, l as u16, &body);
                // deliver: fixed part, then up to 3 more chunks ending exactly at / around 16+l
                let n = bytes.len();
                let mut cuts = vec![rng.range(1, 16) as usize, 16];
                if n > 17 {
                    cuts.push(16 + rng.below((n - 16) as u64) as usize);
                    cuts.push(n - 1);
                }
                if 16 + l < n {
                    cuts.push(16 + l);
                }
                if n > 65535 {
                    cuts.push(65535);
                    cuts.push(65534);
                }
                let chunks = split_at(&bytes, &cuts);
                sink(Session { sid: format!("v2len-{}", i), tag: json!({"g": "v2len"}), chunks, huge: None, consume: false, inplace: false, prelude: Vec::new() });
            }
        }
        "v2sig" => {
            for i in 0..count {
                let mut bytes = random_v2_good(rng);
                let pos = (i % 12) as usize;
                let val = if count >= 12 * 255 { ((i / 12) % 256) as u8 } else { rng.next() as u8 };
                bytes[pos] = val;
                let chunks = if rng.chance(1, 3) { split_each(&bytes[..bytes.len().min(20)]) } else { vec![bytes.clone()] };
                sink(Session { sid: format!("v2sig-{}", i), tag: json!({"g": "v2sig"}), chunks, huge: None, consume: false, inplace: false, prelude: Vec::new() });
            }
        }
        // signatures damaged in SEVERAL bytes in ways a checksum-like comparison could cancel out:
        // every pair of positions with the same XOR delta (and with the same additive delta), the
        // 2- and 4-byte words swapped / rotated / reversed, neighbouring bytes swapped, case
        // changes of QUIT, the signature shifted by one byte. count is a cap (all: about 700)
        "v2sigmulti" => {
            let mut variants: Vec<Vec<u8>> = Vec::new();
            let sig: Vec<u8> = ppp::v2::PROTOCOL_PREFIX.to_vec();
            for i in 0..12usize {
                for j in (i + 1)..12usize {
                    for d in [0x01u8, 0x20, 0x80, 0xff, 0x0d ^ 0x0a] {
                        let mut v = sig.clone();
                        v[i] ^= d;
                        v[j] ^= d;
                        variants.push(v);
                    }
                    let mut v = sig.clone();
                    v[i] = v[i].wrapping_add(1);
                    v[j] = v[j].wrapping_sub(1);
                    variants.push(v);
                    let mut v = sig.clone();
                    v.swap(i, j);
                    if v != sig { variants.push(v); }
                }
            }
            for w in [2usize, 3, 4, 6] {
                let words: Vec<Vec<u8>> = sig.chunks(w).map(|c| c.to_vec()).collect();
                for a in 0..words.len() {
                    for b in (a + 1)..words.len() {
                        let mut ws = words.clone();
                        ws.swap(a, b);
                        let v = ws.concat();
                        if v != sig { variants.push(v); }
                    }
                }
                let mut rot = words.clone();
                rot.rotate_left(1);
                variants.push(rot.concat());
            }
            let mut rev = sig.clone();
            rev.reverse();
            variants.push(rev);
            variants.push(b"\r\n\r\n\0\r\nquit\n".to_vec());
            variants.push(b"\r\n\r\n\0\r\nQuit\n".to_vec());
            let mut shifted = sig[1..].to_vec();
            shifted.push(0x21);
            variants.push(shifted);
            variants.sort();
            variants.dedup();
            let total = variants.len();
            let take = count.min(total);
            let step = total as f64 / take as f64;
            let off = (rng.below(97) as f64) / 97.0 * step;
            for i in 0..take {
                let v = &variants[((off + i as f64 * step) as usize).min(total - 1)];
                let mut bytes = random_v2_good(rng);
                bytes[..12].copy_from_slice(v);
                sink(Session { sid: format!("v2sigmulti-{}", i), tag: json!({"g": "v2sigmulti"}), chunks: vec![bytes], huge: None, consume: false, inplace: false, prelude: Vec::new() });
            }
        }
        // what the crate's own builder emits for random call sequences, as parser input
        "bparse" => {
            for i in 0..count {
                let mut bytes = match crate::builder::random_built(rng) {
                    Some(b) => b,
                    None => continue,
                };
                if bytes.len() > 4000 {
                    continue;
                }
                if rng.chance(1, 4) {
                    bytes.extend(random_trailer(rng));
                }
                let chunks = if bytes.len() > 120 {
                    let n = bytes.len();
                    let cuts: Vec<usize> = (1..18).chain([n - 1, 231, 232, 233]).collect();
                    split_at(&bytes, &cuts)
                } else {
                    chunking(&bytes, rng, 5)
                };
                sink(Session { sid: format!("bparse-{}", i), tag: json!({"g": "bparse"}), chunks, huge: None, consume: false, inplace: false, prelude: Vec::new() });
            }
        }
        // both formats in one stream
        "mixed" => {
            for i in 0..count {
                let sig = ppp::v2::PROTOCOL_PREFIX;
                let line = random_line_tokens(rng).concat();
                let bin = random_v2_good(rng);
                let bytes: Vec<u8> = match rng.below(5) {
                    0 => { let k = rng.below(13) as usize; let mut v = sig[..k].to_vec(); v.extend(&line); v }
                    1 => { let mut v = line.clone(); v.extend(&bin); v }
                    2 => { let mut v = bin.clone(); v.extend(&line); v }
                    3 => { let n = rng.below(7) as usize; (0..n).map(|_| *rng.pick(b"\r\n\x00P")).collect() }
                    _ => { let k = rng.below(17) as usize; let mut v = bin[..k.min(bin.len())].to_vec(); v.extend(&line); v }
                };
                let chunks = chunking(&bytes, rng, 6);
                sink(Session { sid: format!("mixed-{}", i), tag: json!({"g": "mixed"}), chunks, huge: None, consume: false, inplace: false, prelude: Vec::new() });
            }
        }
        "bytes" => {
            for i in 0..count {
                let n = rng.below(40) as usize;
                let bytes = rng.bytes(n);
                let chunks = chunking(&bytes, rng, 3);
                sink(Session { sid: format!("bytes-{}", i), tag: json!({"g": "bytes"}), chunks, huge: None, consume: false, inplace: false, prelude: Vec::new() });
            }
        }
        other => panic!("unknown stream generator {}", other),
    }
}
