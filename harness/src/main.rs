//! drive: executes scenarios and generated inputs on the real `ppp` crate (path dependency on
//! /repo's working tree) and records what it observed as ndjson. No expectations live here.

// matches over the crate's enums carry a catch-all arm, so that a variant added to the crate is
// reported as data instead of breaking the build of the harness
#![allow(unreachable_patterns)]

mod builder;
mod misc;
mod proj;
mod stream;
mod tlv;
mod util;

use serde_json::Value;
use std::fs::File;
use std::io::{BufRead, BufReader, BufWriter, Write};

fn main() {
    let args: Vec<String> = std::env::args().skip(1).collect();
    let mut out_path = String::new();
    let mut seed: u64 = 1;
    let mut scenarios: Vec<String> = Vec::new();
    let mut gens: Vec<String> = Vec::new();
    let mut i = 0;
    while i < args.len() {
        match args[i].as_str() {
            "--out" => { out_path = args[i + 1].clone(); i += 2; }
            "--seed" => { seed = args[i + 1].parse().expect("seed"); i += 2; }
            "--scenarios" => { scenarios.push(args[i + 1].clone()); i += 2; }
            "--gen" => { gens.push(args[i + 1].clone()); i += 2; }
            other => { eprintln!("unknown argument {}", other); std::process::exit(2); }
        }
    }
    if out_path.is_empty() {
        eprintln!("usage: drive --out FILE [--seed N] [--scenarios FILE]... [--gen family:name:count]...");
        std::process::exit(2);
    }
    // panics in the code under test are data; keep stderr quiet
    util::install_panic_hook();
    util::set_hang_file(format!("{}.hang", out_path));
    util::start_watchdog(10);
    let mut out = BufWriter::new(File::create(&out_path).expect("create output"));
    let mut events = 0usize;

    for path in &scenarios {
        let f = BufReader::new(File::open(path).unwrap_or_else(|e| { eprintln!("{}: {}", path, e); std::process::exit(2) }));
        for (idx, line) in f.lines().enumerate() {
            let line = line.expect("read scenario");
            if line.trim().is_empty() { continue; }
            let mut v: Value = serde_json::from_str(&line).unwrap_or_else(|e| { eprintln!("{}:{}: {}", path, idx + 1, e); std::process::exit(2) });
            if v.get("sid").is_none() {
                let stem = std::path::Path::new(path).file_stem().and_then(|s| s.to_str()).unwrap_or("scn");
                v["sid"] = Value::String(format!("{}-{}", stem, idx));
            }
            util::set_inflight(line.clone());
            events += match v["fam"].as_str().unwrap_or("") {
                "stream" => stream::run_session(&stream::session_from_json(&v, idx), &mut out),
                "tlv" => tlv::run_scenario(&v, idx, &mut out),
                "builder" => builder::run_builder_scenario(&v, idx, &mut out),
                "rebuild" => builder::run_rebuild_scenario(&v, idx, &mut out),
                "writer" => builder::run_writer_scenario(&v, idx, &mut out),
                "writerp" => {
                    let sid = v["sid"].as_str().unwrap_or("scn").to_string();
                    let ps: Vec<builder::Payload> = v["ps"].as_array().unwrap().iter().map(builder::payload_from).collect();
                    builder::run_writer_persistent(&sid, v.get("tag").unwrap_or(&serde_json::json!({"g": "scenario"})), &ps, &mut out)
                }
                "format" => misc::run_format_scenario(&v, idx, &mut out),
                "convert" => misc::run_convert(&v, idx, &mut out),
                "iptext" => misc::run_iptext(&v, idx, &mut out),
                other => { eprintln!("{}:{}: unknown family {:?}", path, idx + 1, other); std::process::exit(2) }
            };
            out.flush().unwrap();
        }
    }

    for (gi, g) in gens.iter().enumerate() {
        let parts: Vec<&str> = g.split(':').collect();
        if parts.len() != 3 { eprintln!("bad --gen {}", g); std::process::exit(2); }
        let (fam, name, count) = (parts[0], parts[1], parts[2].parse::<usize>().expect("count"));
        let mut rng = util::Rng::new(seed.wrapping_mul(1000003).wrapping_add(gi as u64 * 7919).wrapping_add(name.len() as u64));
        util::set_inflight(format!("{{\"gen\":\"{}\",\"seed\":{}}}", g, seed));
        events += match fam {
            "stream" => {
                let mut n = 0;
                let mut sink = |s: stream::Session| {
                    util::set_inflight(serde_json::json!({"fam": "stream", "sid": s.sid, "tag": s.tag,
                        "chunks": s.chunks.iter().map(|c| util::rl(c)).collect::<Vec<_>>()}).to_string());
                    n += stream::run_session(&s, &mut out);
                };
                stream::generate(name, count, &mut rng, &mut sink);
                n
            }
            "tlv" => tlv::generate(name, count, &mut rng, &mut out),
            "builder" => builder::generate_builder(name, count, &mut rng, &mut out),
            "writer" => builder::generate_writer(name, count, &mut rng, &mut out),
            "format" => misc::generate_format(name, count, &mut rng, &mut out),
            "convert" => misc::generate_convert(name, count, &mut rng, &mut out),
            "iptext" => misc::generate_iptext(name, count, &mut rng, &mut out),
            other => { eprintln!("unknown family {}", other); std::process::exit(2) }
        };
        out.flush().unwrap();
    }
    out.flush().unwrap();
    println!("events={}", events);
}
