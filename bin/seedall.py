#!/usr/bin/env python3
"""seedall.py [parallel]  -- runs every seeded change (seeded/*/patch.diff) against the quick check of
its property with `seedtest.py run-scratch` (scratch worktree of /repo, scratch harness copy; /repo is
never touched) and prints one line per change.  Expected: exit 1 for every change, except the ones
whose meta.json says `breaks_property_as_stated: false` (exit 0, reported as model drift)."""
import concurrent.futures
import json
import os
import subprocess
import sys

ROOT = os.path.dirname(os.path.dirname(os.path.abspath(__file__)))


def one(name):
    d = os.path.join(ROOT, 'seeded', name)
    meta = json.load(open(os.path.join(d, 'meta.json')))
    r = subprocess.run([sys.executable, os.path.join(ROOT, 'bin', 'seedtest.py'), 'run-scratch', d] + meta.get('properties_to_run', []),
                       stdout=subprocess.PIPE, stderr=subprocess.STDOUT, text=True)
    last = r.stdout.strip().splitlines()[-1] if r.stdout.strip() else '{}'
    try:
        codes = json.loads(last)
    except ValueError:
        codes = {'?': last[-200:]}
    expect = 0 if meta.get('breaks_property_as_stated') is False else 1
    ok = all(c == expect for c in codes.values()) and codes
    return name, meta['property'], codes, expect, ok


def main():
    par = int(sys.argv[1]) if len(sys.argv) > 1 else 2
    names = sorted(n for n in os.listdir(os.path.join(ROOT, 'seeded')) if os.path.exists(os.path.join(ROOT, 'seeded', n, 'patch.diff')))
    bad = 0
    with concurrent.futures.ThreadPoolExecutor(max_workers=par) as ex:
        for name, prop, codes, expect, ok in ex.map(one, names):
            print('%-8s %-4s %s expected=%d %s' % (name, prop, json.dumps(codes), expect, 'ok' if ok else 'UNEXPECTED'), flush=True)
            bad += 0 if ok else 1
    print('SEEDALL %d changes, %d unexpected' % (len(names), bad))
    return 1 if bad else 0


if __name__ == '__main__':
    sys.exit(main())
