#!/usr/bin/env python3
"""explain.py TRACE EV...  -- print the session state at the given (1-based) event indices."""
import json, sys

def unrl(p):
    out = bytearray()
    for b, n in p:
        out.extend(bytes([b]) * n)
    return bytes(out)

def short(o):
    if not isinstance(o, dict):
        return o
    k = o.get('k')
    if k == 'err':
        return 'err:%s%s inc=%s' % (o.get('e'), ('(%s,%s)' % (o.get('a'), o.get('b')) if 'a' in o else ''), o.get('inc'))
    if k == 'ok':
        if 'hdr' in o:
            return 'ok hdr=%r %s %s %s %s %s' % (bytes(o['hdr']), o.get('proto'), o.get('sa'), o.get('da'), o.get('sp'), o.get('dp'))
        if 'raw' in o:
            return 'ok raw=%d bytes %s %s %s' % (len(unrl(o['raw'])), o.get('cmd'), o.get('tr'), o.get('addr', {}).get('k'))
        if 'r' in o:
            return 'ok[%s] %s' % (o.get('tag'), short(o['r']))
        return 'ok ' + json.dumps({x: o[x] for x in o if x not in ('vw', 'own')})[:200]
    if k == 'panic':
        return 'PANIC ' + str(o.get('msg'))[:120]
    return json.dumps(o)[:200]

def main():
    path = sys.argv[1]
    want = set(int(x) for x in sys.argv[2:])
    buf = b''
    sid = None
    tag = None
    for i, line in enumerate(open(path), 1):
        e = json.loads(line)
        op = e['op']
        if op == 'Reset':
            buf = b''
            sid = e['sid']
            tag = e.get('tag')
        elif op == 'Recv':
            buf += unrl(e['c'])
        if i in want:
            print('--- event %d  op=%s sid=%s tag=%s' % (i, op, sid, json.dumps(tag)[:300]))
            if op == 'Recv':
                print('    buf(%d) = %r' % (len(buf), buf[:200]))
                for ep, o in e['obs'].items():
                    if o.get('k') == 'err' and 'tag' in o:
                        print('    %-5s %s[%s] inc=%s' % (ep, short(o['r']), o['tag'], o['inc']))
                    else:
                        print('    %-5s %s' % (ep, short(o)))
            else:
                print('    ' + json.dumps(e)[:600])

main()
