#!/usr/bin/env python3
"""seedtest.py confirm <worktree>            -- confirm a seeded change in its scratch worktree:
                                                 suite passes with it, demo fails with it and passes without
   seedtest.py run <seeded-dir> [Cxx ...]   -- apply seeded/<id>/patch.diff to /repo, run the given checks
                                                 (default: the property named in meta.json), undo the patch
Never commits anything in /repo; always restores it with `git checkout -- .`."""
import json
import os
import subprocess
import sys

ROOT = os.path.dirname(os.path.dirname(os.path.abspath(__file__)))


def sh(cmd, cwd=None, timeout=3600):
    r = subprocess.run(cmd, shell=True, cwd=cwd, stdout=subprocess.PIPE, stderr=subprocess.STDOUT, text=True, timeout=timeout)
    return r.returncode, r.stdout


def confirm(wt):
    out = {}
    # normalise: the working tree must contain exactly mutation.diff (agents share one stash stack)
    sh('git checkout -- src', cwd=wt)
    rc, o = sh('git apply mutation.diff', cwd=wt)
    if rc != 0:
        print('mutation.diff does not apply: ' + o)
        return 1
    rc, o = sh('git status --short -- src', cwd=wt)
    out['changed_files'] = o.strip().splitlines()
    rc, o = sh('cargo test --offline 2>&1 | grep -E "^test result|^test .* FAILED|error(\\[|:)" | head -20', cwd=wt)
    out['suite_with_change'] = o.strip().splitlines()
    rc1, o = sh('cargo test --offline --lib 2>&1 | grep -E "^test result"', cwd=wt)
    out['lib_tests_with_change'] = o.strip()
    rc, o = sh('cargo test --offline --test demo 2>&1 | grep -E "^test result|panicked|FAILED" | head -8', cwd=wt)
    out['demo_with_change'] = o.strip().splitlines()
    sh('git apply -R mutation.diff', cwd=wt)
    rc, o = sh('cargo test --offline --test demo 2>&1 | grep -E "^test result|panicked|FAILED" | head -8', cwd=wt)
    out['demo_without_change'] = o.strip().splitlines()
    sh('git apply mutation.diff', cwd=wt)
    print(json.dumps(out, indent=1))
    ok = ('73 passed; 0 failed' in out['lib_tests_with_change']
          and any('FAILED' in l or 'failed' in l and '0 failed' not in l for l in out['demo_with_change'])
          and any('ok.' in l and '0 failed' in l for l in out['demo_without_change']))
    print('CONFIRMED' if ok else 'NOT CONFIRMED')
    return 0 if ok else 1


def run(seeded, props):
    meta = json.load(open(os.path.join(seeded, 'meta.json')))
    seeded = os.path.abspath(seeded)
    patch = os.path.join(seeded, 'patch.diff')
    props = props or [meta['property']]
    rc, o = sh('git status --short', cwd='/repo')
    if o.strip():
        print('refusing: /repo has uncommitted changes:\n' + o)
        return 2
    rc, o = sh('git apply %s' % patch, cwd='/repo')
    if rc != 0:
        print('patch does not apply:\n' + o)
        return 2
    results = {}
    try:
        for p in props:
            rc, o = sh('%s/bin/check %s --tier quick' % (ROOT, p), cwd=ROOT)
            lines = [l for l in o.splitlines() if l.startswith(('VIOLATION', 'PASS', 'FAIL', 'TOOL-ERROR', '  failing clauses'))]
            results[p] = dict(exit=rc, summary=lines[-3:], first_violation=next((l for l in lines if l.startswith('VIOLATION')), None))
            print('%s exit=%d %s' % (p, rc, ' | '.join(lines[-2:])[:400]), flush=True)
    finally:
        sh('git checkout -- .', cwd='/repo')
        sh('git clean -fdq tests', cwd='/repo')
    print(json.dumps({p: r['exit'] for p, r in results.items()}))
    return 0


def save_replay(seeded, pid, replay_dir):
    """Keeps the first failing session of a detected change as seeded/<id>/replay.ndjson; bin/check
    replays these sessions on every run of that property (a regression corpus: on the unchanged tree
    they hold, on a tree that reintroduces the change they fail whatever the seed)."""
    try:
        names = sorted(n for n in os.listdir(replay_dir) if n.startswith(pid + '-'))
    except OSError:
        return
    for n in names:
        try:
            line = open(os.path.join(replay_dir, n)).readline()
            scn = json.loads(line)
        except (ValueError, OSError):
            continue
        if not isinstance(scn, dict) or 'fam' not in scn:
            continue
        if len(line) > 3000000:
            continue
        scn['sid'] = 'seed-' + os.path.basename(seeded)
        with open(os.path.join(seeded, 'replay.ndjson'), 'w') as f:
            f.write(json.dumps(scn) + '\n')
        return


def run_scratch(seeded, props):
    """Like `run`, but on a scratch worktree of /repo and a scratch copy of the harness, so that
    /repo is never touched (several of these can run at once)."""
    import shutil
    import tempfile
    seeded = os.path.abspath(seeded)
    meta = json.load(open(os.path.join(seeded, 'meta.json')))
    props = props or [meta['property']]
    base = tempfile.mkdtemp(prefix='seedrun-', dir='/tmp')
    repo = os.path.join(base, 'repo')
    try:
        rc, o = sh('git worktree add --detach %s HEAD -q' % repo, cwd='/repo')
        if rc != 0:
            print('cannot create scratch worktree: ' + o)
            return 2
        rc, o = sh('git apply %s' % os.path.join(seeded, 'patch.diff'), cwd=repo)
        if rc != 0:
            print('patch does not apply:\n' + o)
            return 2
        harness = os.path.join(base, 'harness')
        # the build output goes along (when there is one): only the crate and the harness itself are rebuilt
        shutil.copytree(os.path.join(ROOT, 'harness'), harness, ignore=shutil.ignore_patterns('incremental'))
        cargo = open(os.path.join(harness, 'Cargo.toml')).read().replace('path = "/repo"', 'path = "%s"' % repo)
        open(os.path.join(harness, 'Cargo.toml'), 'w').write(cargo)
        env = dict(os.environ, VERIF_HARNESS_DIR=harness, VERIF_OUT_DIR=os.path.join(base, 'out'),
                   VERIF_EVIDENCE_DIR=os.path.join(base, 'evidence'))
        codes = {}
        for p in props:
            r = subprocess.run('%s/bin/check %s --tier quick' % (ROOT, p), shell=True, cwd=ROOT, env=env,
                               stdout=subprocess.PIPE, stderr=subprocess.STDOUT, text=True)
            lines = [l for l in r.stdout.splitlines() if l.startswith(('PASS', 'FAIL', 'TOOL-ERROR', '  failing clauses', 'NOTE'))]
            codes[p] = r.returncode
            print('%s %s exit=%d %s' % (os.path.basename(seeded), p, r.returncode, ' | '.join(lines[-3:])[:500]), flush=True)
            if r.returncode == 1 and p == meta.get('property'):
                save_replay(seeded, p, os.path.join(base, 'out', 'replay'))
        print(json.dumps(codes))
        return 0
    finally:
        sh('git worktree remove --force %s' % repo, cwd='/repo')
        if not os.environ.get("SEEDTEST_KEEP"):
            shutil.rmtree(base, ignore_errors=True)


if __name__ == '__main__':
    if len(sys.argv) >= 3 and sys.argv[1] == 'run-scratch':
        sys.exit(run_scratch(sys.argv[2], sys.argv[3:]))
    if len(sys.argv) >= 3 and sys.argv[1] == 'confirm':
        sys.exit(confirm(sys.argv[2]))
    if len(sys.argv) >= 3 and sys.argv[1] == 'run':
        sys.exit(run(sys.argv[2], sys.argv[3:]))
    print(__doc__)
    sys.exit(2)
