"""Per-property configuration of bin/check: which bounded models, which harness generators and
which trace specifications decide each property.  Counts are sessions, not events."""

FAMILY_SPEC = {
    'stream': 'TraceStream',
    'tlv': 'TraceTlv',
    'builder': 'TraceBuilder',
    'writer': 'TraceBuilder',
    'format': 'TraceMisc',
    'convert': 'TraceMisc',
    'iptext': 'TraceMisc',
}


def g(fam, **kw):
    return ['%s:%s:%d' % (fam, name, n) for name, n in kw.items()]


V1_QUICK = g('stream', v1good=150, v1corrupt=120, v1struct=120, v1mutate=200, v1trunc=10, v1len=25, v1max=75, v1adj=96, v1lenient=1, v1words=170, v1unicode=156, v1extra=340, v1prefix=66, known=140, v1straddle=231, v1ipfield=40, v1crsame=119, v1junk=80, v1cr=60, bytes=40)
V1_THOROUGH = g('stream', v1good=4000, v1corrupt=4000, v1struct=3000, v1mutate=8000, v1trunc=300, v1len=400, v1max=700, v1adj=6144, v1lenient=1, v1words=170, v1unicode=156, v1extra=340, v1prefix=66, known=2000, v1straddle=231, v1ipfield=1500, v1crsame=119, v1junk=2500, v1cr=1500, bytes=1000)
V2_QUICK = g('stream', v2good=120, v2corrupt=150, v2mutate=250, bparse=150, v2ctrl=700, v2grid=416, v2len=330, v2sig=60, v2sigmulti=150, v2halves=75, reuse=24, known=140, mixed=80, bytes=40, huge=4)
V2_THOROUGH = g('stream', v2good=3000, v2corrupt=4000, v2mutate=8000, bparse=4000, v2ctrl=65536, v2grid=416, v2len=2500, v2sig=3060, v2sigmulti=800, v2halves=300, reuse=400, known=2000, mixed=2000, bytes=1000, huge=60)
IPTEXT_QUICK = g('iptext', iprand=400)
IPTEXT_THOROUGH = g('iptext', iprand=20000)
TLV_QUICK = g('tlv', tlvrand=150, tlvtrunc=150, tlvbig=10, tlvmany=6, tlvprog=60, tlvhuge=6, tlvssl=64, tlvreal=2300)
TLV_THOROUGH = g('tlv', tlvrand=6000, tlvtrunc=6000, tlvbig=56, tlvmany=100, tlvprog=3000, tlvhuge=40, tlvssl=2048, tlvreal=2300)
BUILDER_QUICK = g('builder', bseq=120, bsetlen=120, btotal=10, bpairs=40, bover=18, bbatch=15, bcustom=60)
BUILDER_THOROUGH = g('builder', bseq=5000, bsetlen=5000, btotal=200, bpairs=1500, bover=360, bbatch=210, bcustom=1200)


def model(module, quick, thorough, need=(), workers=8, cap=None, tq=600, tt=3000):
    cfg = {}
    if quick:
        cfg['quick'] = quick
    if thorough:
        cfg['thorough'] = thorough
    return dict(module=module, cfg=cfg, need=list(need), workers=workers,
                cap=cap or dict(quick=1500, thorough=40000), timeout=dict(quick=tq, thorough=tt))


MC_V1 = model('MC_StreamV1', 'MC_StreamV1_quick.cfg', 'MC_StreamV1_thorough.cfg', need=['final.v1b'],
              cap=dict(quick=400, thorough=12000))
MC_V1_DEEP = model('MC_StreamV1', 'MC_StreamV1_quick.cfg', 'MC_StreamV1_deep.cfg', need=['final.v1b'],
                   cap=dict(quick=400, thorough=20000), tt=7200)
MC_V2 = model('MC_StreamV2', 'MC_StreamV2_quick.cfg', 'MC_StreamV2_thorough.cfg', need=['final.v2'],
              cap=dict(quick=300, thorough=4000))
MC_TLV = model('MC_Tlv', 'MC_Tlv_quick.cfg', 'MC_Tlv_thorough.cfg', need=['kinds'], cap=dict(quick=2500, thorough=40000))
MC_BUILDER = model('MC_Builder', 'MC_Builder_quick.cfg', 'MC_Builder_thorough.cfg', need=['built'],
                   cap=dict(quick=30000, thorough=60000), tt=7200)
MC_WRITER = model('MC_Writer', 'MC_Writer_quick.cfg', 'MC_Writer_thorough.cfg', need=['refused'])
MC_FORMAT = model('MC_Format', 'MC_Format_quick.cfg', 'MC_Format_thorough.cfg', need=['len'], cap=dict(quick=800, thorough=20000))
MC_MIXED = model('MC_Mixed', 'MC_Mixed_quick.cfg', 'MC_Mixed_thorough.cfg', need=['autotag'], cap=dict(quick=400, thorough=6000))
MC_V1_LIVE = model('MC_StreamV1', 'MC_StreamV1_live.cfg', 'MC_StreamV1_live.cfg')
MC_IPTEXT = model('MC_IpText', 'MC_IpText_quick.cfg', 'MC_IpText_thorough.cfg', need=['ok'], cap=dict(quick=5000, thorough=200000), tt=3000)
MC_PIPE = model('MC_Pipe', 'MC_Pipe.cfg', 'MC_Pipe.cfg', need=['left'], cap=dict(quick=300, thorough=900))
MC_CONVERT = model('MC_Convert', 'MC_Convert.cfg', 'MC_Convert.cfg', need=['op'])

TLV_CURSOR_APALACHE = [
    ('cursor abstraction: base case', ['--cinit=ConstFaithful', '--init=Init', '--inv=IndInv', '--length=0'], 'ok', 'TlvCursor'),
    ('cursor abstraction: inductive step (sections of any length, any number of calls)', ['--cinit=ConstFaithful', '--init=IndInit', '--inv=IndInv', '--length=1'], 'ok', 'TlvCursor'),
    ('cursor abstraction: IndInv implies in-range, len/3 + 1 bound, stop after error', ['--cinit=ConstFaithful', '--init=IndInit', '--inv=Safe', '--length=0'], 'ok', 'TlvCursor'),
    ('a cursor that does not stop after an overrun is refuted', ['--cinit=ConstSkewed', '--init=Init', '--inv=Safe', '--length=4'], 'violation', 'TlvCursor'),
]

PROPS = {
    'C01': dict(
        gens=dict(quick=V1_QUICK + IPTEXT_QUICK, thorough=V1_THOROUGH + IPTEXT_THOROUGH),
        models=[MC_V1_DEEP, MC_IPTEXT],
        rule='stream sessions (a v1-shaped byte stream delivered in chunks, every entry point re-run after each chunk); '
             'an event is non-trivial when the buffer contains a CR, i.e. a candidate line exists; distinct = distinct '
             '(stream prefix) inputs',
    ),
    'C02': dict(
        gens=dict(quick=V2_QUICK, thorough=V2_THOROUGH),
        models=[MC_V2],
        rule='stream sessions over v2-shaped inputs (all control-byte pairs in thorough, boundary lengths, signature '
             'corruptions); non-trivial = at least 16 bytes starting with the v2 signature; distinct = distinct inputs',
    ),
    'C03': dict(
        apalache=TLV_CURSOR_APALACHE,
        tlaps=[('TlvCursor_proofs', ['TlvCursor'])],
        gens=dict(
            quick=V1_QUICK + g('stream', v2good=60, v2corrupt=60, v2ctrl=300, v2len=120, mixed=60) + TLV_QUICK
            + g('stream', bigtrail=3, huge=2, pipe=20) + g('builder', bseq=60, rebuild=30, bwire=20) + g('writer', wvals=60, wints=1, wbig=1, wpersist=10, wraw=6, wcustom=15) + g('format', fmtshapes=60, fmtrand=60, fmtknown=80)
            + g('convert', cvrand=66),
            thorough=V1_THOROUGH + V2_THOROUGH + TLV_THOROUGH + g('builder', bseq=3000, rebuild=1000, bwire=500)
            + g('writer', wvals=3000, wints=20, wtlv=2, wcustom=300) + g('format', fmtshapes=6561, fmtrand=5000) + g('convert', cvrand=2200)),
        models=[MC_V1, MC_V2, MC_TLV],
        profiles=['debug', 'release'],
        rule='every event of every family, in a build with overflow checks and debug assertions and in a build without; '
             'non-trivial = a call into the crate on a non-empty input; distinct = distinct inputs',
    ),
    'C04': dict(
        gens=dict(quick=g('stream', v1good=200, v1struct=60, v1len=40, v1max=75, v2good=150, v2len=40, mixed=80, bigtrail=6, huge=6, pipe=60, v1prefix=66),
                  thorough=g('stream', v1good=5000, v1struct=2000, v1len=600, v1max=700, v2good=4000, v2len=2000, mixed=2500, bigtrail=60, huge=80, pipe=2000, v1prefix=66)),
        models=[MC_V1, MC_V2, MC_MIXED, MC_PIPE],
        rule='stream sessions whose header is followed by trailers (application bytes, another header, CR/LF/NUL, a '
             'digit, a TLV); non-trivial = an event after the first accept in the session, or the re-parse of the '
             'reported header alone; distinct = distinct inputs',
    ),
    'C05': dict(
        gens=dict(quick=g('stream', v1good=250, v1len=40, v1max=75, v1words=170, v2good=200, v2len=40, mixed=80) + g('tlv', tlvtrunc=80, tlvrand=40),
                  thorough=g('stream', v1good=6000, v1len=600, v1max=700, v1words=170, v2good=5000, v2len=2000, mixed=2500) + g('tlv', tlvtrunc=3000, tlvrand=2000)),
        models=[MC_V1, MC_V2, MC_MIXED],
        rule='stream sessions delivered mostly one byte per read, so every proper prefix is a state; non-trivial = the '
             'first accept of a session that visited at least one proper prefix of that header; distinct = distinct headers+splits',
    ),
    'C06': dict(
        gens=dict(quick=g('stream', mixed=200, v1good=80, v1len=40, v1struct=40, v1mutate=100, v2mutate=150, v2good=80, v2corrupt=60, v1junk=60, bytes=60, huge=4, pipe=30),
                  thorough=g('stream', mixed=6000, v1good=2000, v1len=600, v1struct=1500, v1mutate=4000, v2mutate=4000, v2good=2000, v2corrupt=2000, v1junk=2000, bytes=2000, huge=40, pipe=1000)),
        models=[MC_MIXED, MC_V1, MC_V2, MC_PIPE],
        rule='every stream event (the three verdicts on the same buffer); non-trivial = non-empty buffer',
    ),
    'C07': dict(
        gens=dict(quick=g('builder', bwire=160, btypes=300, blists=48, breal=1700), thorough=g('builder', bwire=6000, btypes=8448, blists=800, breal=1700)),
        models=[MC_BUILDER],
        rule='builder sessions with valid codes and TLV-only payloads, followed by a parse of what was built; '
             'non-trivial = a build or parse-back whose payload fits in 65535 bytes; distinct = distinct call sequences',
    ),
    'C08': dict(
        gens=dict(quick=g('format', fmtshapes=220, fmtrand=300, fmtknown=336) + IPTEXT_QUICK + g('stream', v1good=100),
                  thorough=g('format', fmtshapes=6561, fmtrand=30000, fmtknown=2000) + IPTEXT_THOROUGH + g('stream', v1good=3000)),
        models=[MC_FORMAT, MC_V1, MC_IPTEXT],
        rule='Display of address values (every zero-run shape in thorough, random pairs) parsed back through the four '
             'text entry points, plus Display of parsed headers; every event is non-trivial; distinct = distinct values',
    ),
    'C09': dict(
        apalache=[
            ('base case', ['--cinit=ConstFixed', '--init=Init', '--inv=IndInv', '--length=0'], 'ok'),
            ('inductive step (unbounded histories)', ['--cinit=ConstFixed', '--init=IndInit', '--inv=IndInv', '--length=1'], 'ok'),
            ('pinned build() violates C09', ['--cinit=ConstPinned', '--init=Init', '--inv=C09', '--length=3'], 'violation'),
        ],
        tlaps=[('BuilderLen_proofs', ['BuilderLen'])],
        gens=dict(quick=BUILDER_QUICK, thorough=BUILDER_THOROUGH),
        models=[MC_BUILDER],
        rule='builder call sequences with set_length at every position and totals around 65535; after every call the '
             'build() of the prefix is observed; non-trivial = a build result (Ok/Err) of a live builder, or an '
             'oversized value; distinct = distinct call-sequence prefixes',
    ),
    'C10': dict(
        gens=dict(quick=BUILDER_QUICK, thorough=BUILDER_THOROUGH),
        models=[MC_BUILDER],
        rule='builder call sequences; non-trivial = a successful build of a live builder; distinct = distinct '
             'call-sequence prefixes; paired sessions differ only in reservations / batching',
    ),
    'C11': dict(
        apalache=TLV_CURSOR_APALACHE,
        tlaps=[('TlvCursor_proofs', ['TlvCursor'])],
        gens=dict(quick=TLV_QUICK + g('stream', v2good=120, bparse=100), thorough=TLV_THOROUGH + g('stream', v2good=4000, bparse=3000)),
        models=[MC_TLV, MC_V2],
        rule='one event per next() on arbitrary sections, plus the TLV walk of every accepted v2 header; non-trivial '
             '= non-empty section / accepted header; distinct = distinct (section, position)',
    ),
    'C12': dict(
        gens=dict(quick=g('stream', v1corrupt=400, v1lenient=1, v1ipfield=40, v2corrupt=300) + IPTEXT_QUICK,
                  thorough=g('stream', v1corrupt=12000, v1lenient=1, v2corrupt=9000) + IPTEXT_THOROUGH),
        models=[MC_V1_DEEP, MC_V2, MC_IPTEXT],
        rule='sessions tagged with (well-formed base, element, replacement); the specification re-derives the corrupted '
             'input and whether the replacement qualifies; non-trivial = qualifying corruption observed at the end of '
             'the line / header; distinct = distinct corrupted inputs',
    ),
    'C13': dict(
        gens=dict(quick=g('builder', rebuild=140), thorough=g('builder', rebuild=4000)),
        models=[MC_V2],
        rule='parse a header, rebuild it from the observed parts (raw / items / address value); non-trivial = a '
             'rebuild whose inputs are verified to be the observed parts; distinct = distinct (header, mode)',
    ),
    'C14': dict(
        gens=dict(quick=g('stream', v2good=200, v2halves=75, reuse=24, v2len=330, v2ctrl=300, bparse=150, v2mutate=150), thorough=g('stream', v2good=6000, v2halves=300, reuse=400, v2len=2500, v2ctrl=65536, bparse=4000, v2mutate=4000)),
        models=[MC_V2],
        rule='every accepted v2 header in the stream traces, borrowed and owned views; distinct = distinct inputs',
    ),
    'C15': dict(
        gens=dict(quick=g('stream', v1good=300, v1struct=60, v1adj=96, v1max=75, v1words=170, v1unicode=156), thorough=g('stream', v1good=8000, v1struct=2000, v1adj=6144, v1max=700, v1words=170, v1unicode=156)),
        models=[MC_V1],
        rule='every accepted v1 header (bytes and text entry points); distinct = distinct inputs',
    ),
    'C16': dict(
        gens=dict(quick=V1_QUICK + g('stream', v2good=80) + g('tlv', tlvrand=80, tlvtrunc=80),
                  thorough=V1_THOROUGH + g('stream', v2good=3000) + g('tlv', tlvrand=3000, tlvtrunc=3000)),
        models=[MC_V1, MC_V2],
        rule='every stream event whose buffer is valid UTF-8 (agreement clause) and every accepted header / decoded '
             'TLV (owned-copy clause, read after the input buffer was overwritten and dropped)',
    ),
    'C17': dict(
        gens=dict(quick=g('stream', v2len=500, v2good=150, v2mutate=150, v2corrupt=80, huge=4), thorough=g('stream', v2len=6000, v2good=4000, v2mutate=4000, v2corrupt=2000, huge=40)),
        models=[MC_V2],
        rule='truncated v2 headers delivered in chunks ending exactly at / before the declared length; non-trivial = '
             'an Incomplete or Partial verdict; distinct = distinct inputs',
    ),
    'C18': dict(
        gens=dict(quick=g('stream', v1struct=300, v1trunc=30, v1mutate=200, v1len=40, v1cr=120, v1corrupt=100, v1junk=100, v1adj=96, v1extra=340, v1straddle=231, v1crsame=119),
                  thorough=g('stream', v1struct=8000, v1trunc=900, v1mutate=8000, v1len=600, v1cr=3000, v1corrupt=3000, v1junk=3000, v1adj=6144, v1extra=340, v1straddle=231, v1crsame=119)),
        models=[MC_V1, MC_V1_LIVE],
        rule='stream events whose buffer has a byte after its first CR, or >= 107 bytes and no CR; distinct = distinct inputs',
    ),
    'C19': dict(
        gens=dict(quick=g('convert', cvrand=330), thorough=g('convert', cvrand=22000)),
        models=[MC_CONVERT],
        rule='constructor / conversion calls with pairwise distinct arguments; every event is non-trivial',
    ),
    'C20': dict(
        gens=dict(quick=g('writer', wvals=200, wints=2, wtlv=1, wbig=1, wpersist=30, wlimit=10, wraw=10, wcustom=30, whuge=3), thorough=g('writer', wvals=8000, wints=60, wtlv=4, wbig=1, wpersist=900, wlimit=300, wraw=300, wcustom=600, whuge=12)),
        models=[MC_WRITER],
        rule='values of every WriteToHeader type written into empty and pre-filled writers; non-trivial = writer at '
             'most 4096 bytes long (well below its limit); distinct = distinct (prefill, value)',
    ),
}
