#!/usr/bin/env python3
"""Regenerates seeded/README.md from seeded/*/meta.json."""
import glob
import json
import os

ROOT = os.path.dirname(os.path.dirname(os.path.abspath(__file__)))
rows = []
for f in sorted(glob.glob(os.path.join(ROOT, 'seeded', '*', 'meta.json'))):
    m = json.load(open(f))
    rows.append((os.path.basename(os.path.dirname(f)), m))
with open(os.path.join(ROOT, 'seeded', 'README.md'), 'w') as out:
    out.write('# Seeded changes\n\nEach directory holds `patch.diff` (the change to misalcedo/ppp), `demo.rs` (an integration test that fails\n'
              'with the change and passes without it) and `meta.json`. None of these changes is ever committed in /repo;\n'
              '`bin/seedtest.py run seeded/<id>` applies one, runs checks and restores /repo.\n\n'
              '| id | property | change | needs, to manifest | detected by | history |\n|---|---|---|---|---|---|\n')
    for name, m in rows:
        det = '; '.join('%s: %s' % kv for kv in m.get('detected_by', {}).items()) or '-'
        out.write('| %s | %s | %s | %s | %s | %s |\n' % (name, m['property'], m['change'].replace('|', '\\|'),
                                                       m['needs_to_manifest'].replace('|', '\\|'), det, m.get('history', '').replace('|', '\\|')))
print('wrote seeded/README.md with %d rows' % len(rows))
