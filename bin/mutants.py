#!/usr/bin/env python3
"""mutants.py <file under /repo/src> [max]  -- a small operator-level mutation campaign.

For every mutation site of the given source file (comparison operators, boolean connectives, +-1
on integer literals, find/rfind, starts_with/ends_with, min/max, swapped `source`/`destination`
words) a scratch copy of /repo is mutated; mutants that do not compile or that fail the crate's own
tests are discarded; the survivors are run against the quick checks of the properties anchored in
that file (bin/seedtest.py run-scratch).  Prints one line per surviving mutant: killed by which
checks, or SURVIVED (either equivalent with respect to the properties, or a miss - to be read by
a person).  /repo itself is never touched."""
import json
import os
import re
import shutil
import subprocess
import sys
import tempfile

ROOT = os.path.dirname(os.path.dirname(os.path.abspath(__file__)))
RELEVANT = {
    'src/v1/mod.rs': ['C01', 'C05', 'C12', 'C16', 'C18'],
    'src/v1/model.rs': ['C08', 'C15', 'C16', 'C19'],
    'src/v2/mod.rs': ['C02', 'C04', 'C12', 'C14', 'C17'],
    'src/v2/model.rs': ['C11', 'C14', 'C16', 'C13', 'C02'],
    'src/v2/builder.rs': ['C07', 'C09', 'C10', 'C20'],
    'src/lib.rs': ['C05', 'C06'],
    'src/ip.rs': ['C19', 'C08'],
}
SUBS = [(r'<=', '<'), (r'>=', '>'), (r'(?<![<>=!-])<(?![<=])', '<='), (r'(?<![<>=!-])>(?![>=])', '>='), (r'==', '!='), (r'!=', '=='),
        (r'&&', '||'), (r'\|\|', '&&'), (r'\brfind\b', 'find'), (r'\bfind\b', 'rfind'), (r'\bstarts_with\b', 'ends_with'),
        (r'\bends_with\b', 'starts_with'), (r'\bmin\(', 'max('), (r'\+ 1\b', '+ 2'), (r'- 1\b', '- 2'), (r'\+ 2\b', '+ 1'),
        (r'\bsource_', 'destination_'), (r'\bdestination_', 'source_'), (r'\bis_some\b', 'is_none'), (r'\bis_empty\(\)', 'len() == 1')]


def sites(text):
    body_end = text.find('#[cfg(test)]')
    body = text if body_end < 0 else text[:body_end]
    out = []
    for pat, rep in SUBS:
        for m in re.finditer(pat, body):
            line_start = body.rfind('\n', 0, m.start()) + 1
            line = body[line_start:body.find('\n', m.start())]
            if line.strip().startswith('//') or '#[' in line or 'fn ' in line and '->' in line and pat in (r'(?<![<>=!-])>(?![>=])', r'(?<![<>=!-])<(?![<=])'):
                continue
            if ('<' in m.group(0) or '>' in m.group(0)) and re.search(r'(impl|struct|enum|fn|Result|Option|Cow|Vec|From|Into|TryFrom|Iterator|Peekable|->|::<|&\'|<\'|dyn |where )', line):
                continue
            out.append((m.start(), m.end(), rep, body.count('\n', 0, m.start()) + 1, line.strip()))
    return out


def main():
    rel = sys.argv[1]
    cap = int(sys.argv[2]) if len(sys.argv) > 2 else 40
    src = open(os.path.join('/repo', rel)).read()
    cand = sites(src)
    step = max(1, len(cand) // cap)
    cand = cand[::step][:cap]
    print('%d mutation sites sampled in %s' % (len(cand), rel), flush=True)
    for (a, b, rep, lineno, line) in cand:
        base = tempfile.mkdtemp(prefix='mutant-', dir='/tmp')
        wt = os.path.join(base, 'repo')
        try:
            subprocess.run('git worktree add --detach %s HEAD -q' % wt, shell=True, cwd='/repo', check=True)
            mutated = src[:a] + rep + src[b:]
            open(os.path.join(wt, rel), 'w').write(mutated)
            r = subprocess.run('cargo test --offline -q 2>&1 | tail -5', shell=True, cwd=wt, stdout=subprocess.PIPE, text=True)
            t = subprocess.run('cargo test --offline 2>&1 | grep -E "^test result|error(\\[|:)"', shell=True, cwd=wt, stdout=subprocess.PIPE, text=True).stdout
            ok = t.count('test result: ok') >= 2 and 'error' not in t and 'FAILED' not in t
            if not ok:
                print('line %d %-12s not viable (does not compile or fails the crate\'s tests): %s' % (lineno, repr(rep), line[:90]), flush=True)
                continue
            diff = subprocess.run('git diff -- src', shell=True, cwd=wt, stdout=subprocess.PIPE, text=True).stdout
            sd = os.path.join(base, 'seed')
            os.makedirs(sd)
            open(os.path.join(sd, 'patch.diff'), 'w').write(diff)
            json.dump(dict(property=RELEVANT[rel][0]), open(os.path.join(sd, 'meta.json'), 'w'))
            subprocess.run('git worktree remove --force %s' % wt, shell=True, cwd='/repo')
            r = subprocess.run([sys.executable, os.path.join(ROOT, 'bin', 'seedtest.py'), 'run-scratch', sd] + RELEVANT[rel],
                               stdout=subprocess.PIPE, stderr=subprocess.STDOUT, text=True)
            last = r.stdout.strip().splitlines()[-1] if r.stdout.strip() else '{}'
            try:
                codes = json.loads(last)
            except ValueError:
                codes = {}
            killed = [p for p, c in codes.items() if c == 1]
            tool = [p for p, c in codes.items() if c == 2]
            print('line %d %-12s %s %s: %s' % (lineno, repr(rep), ('KILLED by ' + ','.join(killed)) if killed else 'SURVIVED', ('(tool errors: %s)' % ','.join(tool)) if tool else '', line[:90]), flush=True)
        finally:
            subprocess.run('git worktree remove --force %s' % wt, shell=True, cwd='/repo', stdout=subprocess.DEVNULL, stderr=subprocess.DEVNULL)
            shutil.rmtree(base, ignore_errors=True)


if __name__ == '__main__':
    main()
