----------------------------- MODULE TraceMisc -----------------------------
(***************************************************************************)
(* Trace validation for the stateless families:                            *)
(*   format  - `Display` of a v1 address value and the four text entry     *)
(*             points on the result (C08)                                  *)
(*   convert - constructors and socket-address conversions (C19)           *)
(*   iptext  - the standard library's address parsers on arbitrary text:   *)
(*             validates THIS specification's grammar (IpText), not the    *)
(*             crate; a disagreement is reported as BIND (tool error)      *)
(***************************************************************************)
EXTENDS Bytes, Json, IOUtils, TLC

CONSTANT Props

V1 == INSTANCE V1
Cv == INSTANCE Convert

Rec == ndJsonDeserialize(IOEnv.TRACE)

VARIABLE l

Ev == Rec[l]
IsEvent(name) == l <= Len(Rec) /\ Ev.op = name /\ l' = l + 1

Sel(p, S) == IF p \in Props THEN S ELSE {}
Flag(p, c) == IF p \in Props /\ c THEN {p} ELSE {}

Emit(fails, nts) ==
    IF fails = {} /\ nts = {} THEN TRUE
    ELSE PrintT(ToJson([ev |-> l, fails |-> fails, nt |-> nts]))

SameAddr(o, a) == o.proto = a.proto /\ o.sa = a.sa /\ o.da = a.da /\ o.sp = a.sp /\ o.dp = a.dp

C08_Fails(a, text, back) ==
    IF text.k # "ok" THEN {}
    ELSE LET t == text.v
             wf == V1!WellFormedLine(t)
             one(e) == LET o == back[e]
                       IN  IF o.k = "panic" THEN {}
                           ELSE IF o.k # "ok" THEN {<< "C08", "formatted-line-rejected", e >>}
                           ELSE IF ~SameAddr(o, a) THEN {<< "C08", "parses-back-to-different-value", e >>}
                           ELSE IF e # "v1fa" /\ o.hdr # t THEN {<< "C08", "parses-back-to-different-text", e >>}
                           ELSE {}
         IN  (IF ~wf THEN {<< "C08", "not-a-well-formed-line", "display" >>}
              ELSE IF ~SameAddr(V1!Decode(t), a) THEN {<< "C08", "line-denotes-a-different-value", "display" >>}
              ELSE {})
             \cup (IF Len(t) > 107 THEN {<< "C08", "longer-than-107", "display" >>} ELSE {})
             \cup one("v1b") \cup one("v1s") \cup one("v1fh") \cup one("v1fa")

TraceFmt ==
    /\ IsEvent("FmtV1")
    /\ LET panicked == Ev.text.k = "panic" \/ (Ev.text.k = "ok" /\ \E e \in {"v1b", "v1s", "v1fh", "v1fa"} : Ev.back[e].k = "panic")
       IN  Emit(Sel("C08", C08_Fails(Ev.a, Ev.text, IF Ev.text.k = "ok" THEN Ev.back ELSE << >>))
                \cup Sel("C03", IF panicked THEN {<< "C03", "panic", "format" >>} ELSE {})
                \cup Sel("DRIFT", IF Ev.text.k = "ok" /\ Ev.text.v # V1!FormatAddresses(Ev.a) THEN {<< "DRIFT", "not-rfc5952-canonical", "display" >>} ELSE {}),
                Flag("C08", TRUE) \cup Flag("C03", TRUE))

ConvertFails(op, a, res) ==
    IF res.k = "panic" THEN {}
    ELSE LET r == res.v IN
         CASE op \in {"IPv4New", "IPv6New", "V1NewTcp4", "V1NewTcp6", "V1FromIPv4", "V1FromIPv6", "V2FromIPv4", "V2FromIPv6"} ->
                (IF r # Cv!Expected(op, a) THEN {<< "C19", "argument-in-wrong-role", op >>} ELSE {})
           [] op = "UnixNew" ->
                (IF r.src # a.src \/ r.dst # a.dst \/ r.as_addr # [k |-> "Unix", src |-> a.src, dst |-> a.dst]
                 THEN {<< "C19", "argument-in-wrong-role", op >>} ELSE {})
           [] op = "FromPair" ->
                (IF r # Cv!PairExpected(a.s, a.d) THEN {<< "C19", "socket-pair-conversion", op >>} ELSE {})
           [] op = "TlvNew" ->
                (IF r.t # a.t \/ r.v # a.v \/ r.ft # a.t \/ r.fv # a.v \/ ~r.eq THEN {<< "C19", "tlv-constructor", op >>} ELSE {})
           [] op = "V1HeaderNew" ->
                (IF r.hdr # a.text \/ r.a # a.a THEN {<< "C19", "header-constructor", op >>} ELSE {})
           [] OTHER -> {<< "BIND", "unknown-convert-op", op >>}

ConvertOps == {"IPv4New", "IPv6New", "V1NewTcp4", "V1NewTcp6", "V1FromIPv4", "V1FromIPv6", "V2FromIPv4",
               "V2FromIPv6", "UnixNew", "FromPair", "TlvNew", "V1HeaderNew"}

TraceConvert ==
    /\ l <= Len(Rec) /\ Ev.op \in ConvertOps /\ l' = l + 1
    /\ Emit(Sel("C19", ConvertFails(Ev.op, Ev.args, Ev.r))
            \cup Sel("C03", IF Ev.r.k = "panic" THEN {<< "C03", "panic", Ev.op >>} ELSE {}),
            Flag("C19", TRUE) \cup Flag("C03", TRUE))

(* std accepts "+1" and leading zeros for u16; the port grammar (and the crate) must not *)
TraceIpText ==
    /\ IsEvent("IpText")
    /\ LET t == Ev.t
           ok4 == V1!Ipv4Ok(t)
           ok6 == V1!Ipv6Ok(t)
           okp == V1!PortOk(t)
       IN  Emit((IF (Ev.r4.k = "ok") # ok4 \/ (ok4 /\ Ev.r4.v # V1!Ipv4Val(t)) THEN {<< "BIND", "ipv4-grammar-vs-std", "iptext" >>} ELSE {})
                \cup (IF (Ev.r6.k = "ok") # ok6 \/ (ok6 /\ Ev.r6.v # V1!Ipv6Val(t)) THEN {<< "BIND", "ipv6-grammar-vs-std", "iptext" >>} ELSE {})
                \cup (IF okp /\ ~(Ev.port.k = "ok" /\ Ev.port.v = V1!PortVal(t)) THEN {<< "BIND", "port-grammar-vs-std", "iptext" >>} ELSE {})
                \cup (IF ~okp /\ Ev.port.k = "ok" /\ ~(t[1] = 43 \/ t[1] = 48) THEN {<< "BIND", "port-grammar-vs-std", "iptext" >>} ELSE {}),
                Flag("IPTEXT", ok4 \/ ok6))

TraceInit == l = 1
TraceNext == TraceFmt \/ TraceConvert \/ TraceIpText
TraceSpec == TraceInit /\ [][TraceNext]_l

TraceAccepted ==
    LET d == TLCGet("stats").diameter
    IN  IF d - 1 = Len(Rec) THEN TRUE
        ELSE Print(<< "TRACE-NOT-CONSUMED", d - 1, Len(Rec) >>, FALSE)

=============================================================================
