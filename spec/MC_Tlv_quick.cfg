SPECIFICATION MCSpec
CONSTANTS
    Alphabet = {0, 1, 2, 4}
    MaxLen = 6
    ValueLens = {0, 1, 255, 256}
INVARIANTS InRange PrefixOfWalk StopsForGood Tiling Bounded Exhausts ItemCount Export
CHECK_DEADLOCK FALSE
