SPECIFICATION MCSpec
CONSTANTS
    Alphabet = {0, 1, 2, 4}
    MaxLen = 6
    ValueLens = {0, 1, 255, 256}
    ProgLens <- ProgLensQuick
    NthArgs <- NthArgsQuick
PROPERTY RefinesAbstract
INVARIANTS AbsSafe InRange WalkInvs StopsForGood OnTheWalk Bounded ItemCount Export
CHECK_DEADLOCK FALSE
