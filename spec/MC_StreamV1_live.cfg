SPECIFICATION MCLive
CONSTANTS
    MaxSubst = 1
    Level = 1
PROPERTIES LiveDelivery LiveC18 StableC18
CHECK_DEADLOCK FALSE
