------------------------------ MODULE Builder ------------------------------
(***************************************************************************)
(* `v2::Builder` (src/v2/builder.rs) as a state machine.  The state is one *)
(* record `b`:                                                             *)
(*                                                                         *)
(*   header     NoHeader before the first write, afterwards the buffer     *)
(*   vc, afp    the two control bytes                                      *)
(*   addresses  the construction-time address value                        *)
(*   length     -1 = no explicit length in force, otherwise the value of   *)
(*              the most recent set_length                                 *)
(*   cap        capacity asked for before the buffer exists                *)
(*   alive      FALSE once a call returned Err (the builder is consumed)   *)
(* ghost fields:                                                           *)
(*   written    encodings of the payloads written so far, in call order    *)
(*   fieldAt    what the length field was given when the header was laid   *)
(*              down by the lazily executed WriteHeader step               *)
(*                                                                         *)
(* Each public call is a function from state to state (`After...`), so the *)
(* same definitions serve the bounded model (b' = After...(b, ...)) and    *)
(* trace validation.  Byte strings are in run-length form (Bytes/Writer).  *)
(***************************************************************************)
EXTENDS Writer

VARIABLE b

NoHeader == << << 0, 0 >> >>        \* not a canonical rl string: stands for Option::None
Unspec == [k |-> "Unspecified"]

AfterNew(c, a) ==
    [header |-> NoHeader, vc |-> c, afp |-> a, addresses |-> Unspec, length |-> -1, cap |-> 0,
     alive |-> TRUE, written |-> << >>, fieldAt |-> -1]

AfterWithAddresses(c, tr, addr) ==
    [header |-> NoHeader, vc |-> c, afp |-> V2!FamilyCode(addr.k) * 16 + V2!TransportCode(tr),
     addresses |-> addr, length |-> -1, cap |-> 0, alive |-> TRUE, written |-> << >>, fieldAt |-> -1]

AfterReserve(s, n) == IF s.header = NoHeader THEN [s EXCEPT !.cap = s.cap + n] ELSE s

AfterSetLength(s, v) == [s EXCEPT !.length = v]

(* the internal step `write_header`: lays down the fixed part and the construction-time
   addresses the first time anything is written or built *)
HeaderLaidDown(s) ==
    IF s.header # NoHeader THEN s.header
    ELSE RlCat(RlOf(V2!Signature \o << s.vc, s.afp >> \o U16Bytes(IF s.length = -1 THEN 0 ELSE s.length)),
               Encode([ty |-> "addr", a |-> s.addresses]))

FieldLaidDown(s) == IF s.header # NoHeader THEN s.fieldAt ELSE (IF s.length = -1 THEN 0 ELSE s.length)

RECURSIVE RlConcat(_)
RlConcat(ss) == IF ss = << >> THEN << >> ELSE RlCat(Head(ss), RlConcat(Tail(ss)))

RECURSIVE WriteAll(_, _, _)
(* write the payloads ps in order into cur; stops at the first refusal *)
WriteAll(cur, ps, acc) ==
    IF ps = << >> THEN [ok |-> TRUE, bytes |-> cur, enc |-> acc]
    ELSE LET r == WriteTo(cur, Head(ps))
         IN  IF ~r.ok THEN [ok |-> FALSE, bytes |-> r.bytes, enc |-> acc]
             ELSE WriteAll(r.bytes, Tail(ps), Append(acc, Encode(Head(ps))))

AfterWritePayloads(s, ps) ==
    LET r == WriteAll(HeaderLaidDown(s), ps, << >>)
    IN  [s EXCEPT !.alive = r.ok, !.header = r.bytes, !.written = s.written \o r.enc, !.fieldAt = FieldLaidDown(s)]

(* the same call when every write is known to have succeeded (used by trace validation, which
   follows the observed outcome so that the properties do not depend on the Writer's limit) *)
AfterWritePayloadsOk(s, ps) ==
    LET encs == [i \in 1..Len(ps) |-> Encode(ps[i])]
    IN  [s EXCEPT !.header = RlCat(HeaderLaidDown(s), RlConcat(encs)), !.written = s.written \o encs,
                  !.fieldAt = FieldLaidDown(s)]

AfterWritePayload(s, p) == AfterWritePayloads(s, << p >>)
AfterWriteTlv(s, t, v) == AfterWritePayload(s, [ty |-> "tlv", t |-> t, v |-> v])

(* `build()`: what it returns in state s *)
SetField(h, n) == RlCat(RlCat(RlOf(RlTakeFlat(h, 14)), RlOf(U16Bytes(n))), RlDrop(h, 16))

BuildResult(s) ==
    LET h == HeaderLaidDown(s)
        payload == RlLen(h) - 16
    IN  IF ~s.alive THEN [k |-> "na"]
        ELSE IF s.length # -1 THEN [k |-> "ok", v |-> SetField(h, s.length)]
        ELSE IF payload <= MaxU16 THEN [k |-> "ok", v |-> SetField(h, payload)]
        ELSE [k |-> "err"]

(* The pinned revision returned the buffer untouched when a length was set, so the field kept
   the value sampled by WriteHeader (defect F7, since repaired).  Kept for the record and for
   MC_Builder's demonstration that the defect is a design-level one. *)
BuildResultPinned(s) ==
    LET h == HeaderLaidDown(s)
    IN  IF s.alive /\ s.length # -1 THEN [k |-> "ok", v |-> h] ELSE BuildResult(s)

(* ---- actions ---- *)
New(c, a)                  == b' = AfterNew(c, a)
WithAddresses(c, tr, addr) == b' = AfterWithAddresses(c, tr, addr)
ReserveCapacity(n)         == b.alive /\ b' = AfterReserve(b, n)
SetLength(v)               == b.alive /\ b' = AfterSetLength(b, v)
WritePayloads(ps)          == b.alive /\ b' = AfterWritePayloads(b, ps)
WritePayload(p)            == b.alive /\ b' = AfterWritePayload(b, p)
WriteTlv(t, v)             == b.alive /\ b' = AfterWriteTlv(b, t, v)

(***************************************************************************)
(* Properties, as predicates over a state s and a build result r           *)
(* ([k |-> "ok", v |-> rl bytes] or [k |-> "err"]).  In the bounded model   *)
(* r = BuildResult(s); in trace validation r is what the crate returned.   *)
(***************************************************************************)
(* everything after the 16-byte fixed part, as C10 defines it *)
ExpectedPayload(s) == RlCat(Encode([ty |-> "addr", a |-> s.addresses]), RlConcat(s.written))

LengthField(v) == LET f == RlTakeFlat(v, 16) IN BE16(f[15], f[16])

(* C09: the length field is the explicit length in force, else the actual payload length;
   overflow without an explicit length is an error, never a wrapped length *)
C09_Fails(s, r) ==
    LET actual == RlLen(ExpectedPayload(s))
    IN  IF ~s.alive \/ r.k \notin {"ok", "err"} THEN {}
        ELSE IF r.k = "ok"
             THEN (IF s.length # -1 /\ LengthField(r.v) # s.length THEN {<< "C09", "explicit-length-not-in-field", "build" >>} ELSE {})
                  \cup (IF s.length = -1 /\ LengthField(r.v) # RlLen(r.v) - 16 THEN {<< "C09", "field-is-not-actual-length", "build" >>} ELSE {})
                  \cup (IF s.length = -1 /\ actual > MaxU16 THEN {<< "C09", "overflow-not-refused", "build" >>} ELSE {})
             ELSE {}

(* C10: output = signature, control bytes, length field, ctor addresses, payloads in order *)
C10_Fails(s, r) ==
    IF ~s.alive \/ r.k # "ok" THEN {}
    ELSE (IF RlLen(r.v) < 16 \/ RlTakeFlat(r.v, 14) # V2!Signature \o << s.vc, s.afp >> THEN {<< "C10", "fixed-part", "build" >>} ELSE {})
         \cup (IF RlDrop(r.v, 16) # ExpectedPayload(s) THEN {<< "C10", "payload-not-in-order-concatenation", "build" >>} ELSE {})

=============================================================================
