------------------------------ MODULE Convert ------------------------------
(***************************************************************************)
(* Constructors and conversions (src/ip.rs, src/v1/model.rs,               *)
(* src/v2/model.rs): which argument ends up in which role (C19).           *)
(* Addresses are octet sequences; a socket address is                      *)
(* [fam |-> 4 | 6, ip, port, flow, scope].                                 *)
(***************************************************************************)
EXTENDS Bytes

Quad(a) == [sa |-> a.sa, da |-> a.da, sp |-> a.sp, dp |-> a.dp]

V1Of(kind, a) == [k |-> kind, sa |-> a.sa, da |-> a.da, sp |-> a.sp, dp |-> a.dp]
V2Of(kind, a) == [k |-> kind, sa |-> a.sa, da |-> a.da, sp |-> a.sp, dp |-> a.dp]

(* expected result of each constructor / conversion for the logged arguments *)
Expected(op, a) ==
    CASE op = "IPv4New"    -> Quad(a)
      [] op = "IPv6New"    -> Quad(a)
      [] op = "V1NewTcp4"  -> V1Of("Tcp4", a)
      [] op = "V1NewTcp6"  -> V1Of("Tcp6", a)
      [] op = "V1FromIPv4" -> V1Of("Tcp4", a)
      [] op = "V1FromIPv6" -> V1Of("Tcp6", a)
      [] op = "V2FromIPv4" -> V2Of("IPv4", a)
      [] op = "V2FromIPv6" -> V2Of("IPv6", a)
      [] OTHER -> [k |-> "?"]

(* a pair of socket addresses: same family keeps IPs and ports (flow-info and scope dropped),
   a mixed pair is unknown / unspecified; both versions describe the same endpoints *)
PairExpected(s, d) ==
    IF s.fam = 4 /\ d.fam = 4
    THEN [v1 |-> [k |-> "Tcp4", sa |-> s.ip, da |-> d.ip, sp |-> s.port, dp |-> d.port],
          v2 |-> [k |-> "IPv4", sa |-> s.ip, da |-> d.ip, sp |-> s.port, dp |-> d.port], v2fam |-> "IPv4"]
    ELSE IF s.fam = 6 /\ d.fam = 6
    THEN [v1 |-> [k |-> "Tcp6", sa |-> s.ip, da |-> d.ip, sp |-> s.port, dp |-> d.port],
          v2 |-> [k |-> "IPv6", sa |-> s.ip, da |-> d.ip, sp |-> s.port, dp |-> d.port], v2fam |-> "IPv6"]
    ELSE [v1 |-> [k |-> "Unknown"], v2 |-> [k |-> "Unspecified"], v2fam |-> "Unspecified"]

=============================================================================
