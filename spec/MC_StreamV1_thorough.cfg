SPECIFICATION MCSpec
CONSTANTS
    MaxSubst = 1
    Level = 2
INVARIANTS InvC01 InvC03 InvC04 InvC05 InvC06 InvC08 InvC12 InvC15 InvC16 InvC18 Export
CHECK_DEADLOCK FALSE
