SPECIFICATION MCSpec
CONSTANTS
    MaxDepth = 4
    Level = 2
INVARIANTS InvC09 InvC10 InvHeader InvPieces InvRefusal InvC07 Export
CHECK_DEADLOCK FALSE
