------------------------------- MODULE Bytes -------------------------------
(***************************************************************************)
(* Byte strings are sequences of integers 0..255.  Everything the other    *)
(* modules need to talk about them: searching, splitting (with Rust's      *)
(* `splitn` semantics), big-endian numbers, decimal text, well-formed      *)
(* UTF-8 (Unicode table 3-7) and the run-length form used for long         *)
(* strings.                                                                *)
(***************************************************************************)
EXTENDS Integers, Sequences, FiniteSets

Byte == 0..255

Min2(a, b) == IF a < b THEN a ELSE b
Max2(a, b) == IF a > b THEN a ELSE b

Take(s, n) == SubSeq(s, 1, Min2(n, Len(s)))
Drop(s, n) == SubSeq(s, n + 1, Len(s))

StartsWith(s, p) == Len(p) <= Len(s) /\ SubSeq(s, 1, Len(p)) = p
EndsWith(s, p)   == Len(p) <= Len(s) /\ SubSeq(s, Len(s) - Len(p) + 1, Len(s)) = p

RECURSIVE FindFrom(_, _, _)
(* searched 64 positions at a time: buffers can be > 100 000 bytes long and one level of
   recursion per byte makes TLC (and the JVM's garbage collector, which scans the stack) crawl *)
FindFrom(s, b, i) ==
    IF i > Len(s) THEN 0
    ELSE LET j == Min2(i + 63, Len(s))
             hit == {k \in i..j : s[k] = b}
         IN  IF hit = {} THEN FindFrom(s, b, j + 1)
             ELSE CHOOSE k \in hit : \A m \in hit : k <= m

(* index of the first occurrence of byte b in s, 0 if there is none *)
Find(s, b) == FindFrom(s, b, 1)

AllIn(s, S) == \A i \in 1..Len(s) : s[i] \in S

RECURSIVE SplitFrom(_, _, _, _)
SplitFrom(s, seps, start, i) ==
    IF i > Len(s) THEN << SubSeq(s, start, Len(s)) >>
    ELSE IF s[i] \in seps
         THEN << SubSeq(s, start, i - 1) >> \o SplitFrom(s, seps, i + 1, i + 1)
         ELSE SplitFrom(s, seps, start, i + 1)

(* every piece of s between separator bytes (pieces may be empty) *)
Split(s, seps) == SplitFrom(s, seps, 1, 1)

RECURSIVE SplitNFrom(_, _, _, _, _)
SplitNFrom(s, seps, n, start, i) ==
    IF n <= 1 \/ i > Len(s) THEN << SubSeq(s, start, Len(s)) >>
    ELSE IF s[i] \in seps
         THEN << SubSeq(s, start, i - 1) >> \o SplitNFrom(s, seps, n - 1, i + 1, i + 1)
         ELSE SplitNFrom(s, seps, n, start, i + 1)

(* Rust's `splitn(n, pred)`: at most n pieces, the n-th is the unsplit rest *)
SplitN(s, seps, n) == SplitNFrom(s, seps, n, 1, 1)

RECURSIVE Concat(_)
Concat(ss) == IF ss = << >> THEN << >> ELSE Head(ss) \o Concat(Tail(ss))

BE16(hi, lo) == hi * 256 + lo
U16Bytes(n)  == << n \div 256, n % 256 >>

Digits == 48..57
IsDigits(s) == AllIn(s, Digits)

RECURSIVE DecFrom(_, _, _)
DecFrom(s, i, acc) == IF i > Len(s) THEN acc ELSE DecFrom(s, i + 1, acc * 10 + (s[i] - 48))

(* value of a digit string; callers guard Len(s) <= 9 (TLC integers are 32 bit) *)
DecValue(s) == DecFrom(s, 1, 0)

(***************************************************************************)
(* Well-formed UTF-8                                                       *)
(***************************************************************************)
Utf8SeqLen(s, i) ==
    LET b1 == s[i]
        has(k)  == i + k <= Len(s)
        cont(k) == s[i + k] \in 128..191
    IN  IF b1 <= 127 THEN 1
        ELSE IF b1 \in 194..223 THEN (IF has(1) /\ cont(1) THEN 2 ELSE 0)
        ELSE IF b1 = 224 THEN (IF has(2) /\ s[i + 1] \in 160..191 /\ cont(2) THEN 3 ELSE 0)
        ELSE IF b1 \in 225..236 \/ b1 \in 238..239
             THEN (IF has(2) /\ cont(1) /\ cont(2) THEN 3 ELSE 0)
        ELSE IF b1 = 237 THEN (IF has(2) /\ s[i + 1] \in 128..159 /\ cont(2) THEN 3 ELSE 0)
        ELSE IF b1 = 240
             THEN (IF has(3) /\ s[i + 1] \in 144..191 /\ cont(2) /\ cont(3) THEN 4 ELSE 0)
        ELSE IF b1 \in 241..243
             THEN (IF has(3) /\ cont(1) /\ cont(2) /\ cont(3) THEN 4 ELSE 0)
        ELSE IF b1 = 244
             THEN (IF has(3) /\ s[i + 1] \in 128..143 /\ cont(2) /\ cont(3) THEN 4 ELSE 0)
        ELSE 0

RECURSIVE Utf8From(_, _)
(* runs of US-ASCII are skipped 64 bytes at a time (see FindFrom) *)
Utf8From(s, i) ==
    IF i > Len(s) THEN TRUE
    ELSE LET j == Min2(i + 63, Len(s))
         IN  IF \A k \in i..j : s[k] < 128 THEN Utf8From(s, j + 1)
             ELSE LET n == Utf8SeqLen(s, i) IN n > 0 /\ Utf8From(s, i + n)

Utf8Valid(s) == Utf8From(s, 1)

IsAscii(s) == AllIn(s, 0..127)

(* in a well-formed string: does a character start right after the first n bytes? *)
Utf8Boundary(s, n) == n = 0 \/ n >= Len(s) \/ s[n + 1] \notin 128..191

(***************************************************************************)
(* Run-length form: a sequence of <<byte, count>> pairs.  Canonical when   *)
(* counts are positive and neighbouring runs carry different bytes.        *)
(***************************************************************************)
RECURSIVE Flat(_)
Flat(rl) ==
    IF rl = << >> THEN << >>
    ELSE [i \in 1..Head(rl)[2] |-> Head(rl)[1]] \o Flat(Tail(rl))

RECURSIVE RlLen(_)
RlLen(rl) == IF rl = << >> THEN 0 ELSE Head(rl)[2] + RlLen(Tail(rl))

(* append run <<b, n>> to a canonical rl *)
RlPush(rl, b, n) ==
    IF n = 0 THEN rl
    ELSE IF rl # << >> /\ rl[Len(rl)][1] = b
         THEN [rl EXCEPT ![Len(rl)] = << b, rl[Len(rl)][2] + n >>]
         ELSE Append(rl, << b, n >>)

RECURSIVE RlCat(_, _)
RlCat(a, b) == IF b = << >> THEN a ELSE RlCat(RlPush(a, Head(b)[1], Head(b)[2]), Tail(b))

RECURSIVE RlOfFrom(_, _, _)
RlOfFrom(s, i, acc) == IF i > Len(s) THEN acc ELSE RlOfFrom(s, i + 1, RlPush(acc, s[i], 1))

(* canonical run-length form of a flat string *)
RlOf(s) == RlOfFrom(s, 1, << >>)

(* first n bytes of an rl string, flat *)
RECURSIVE RlTakeFlat(_, _)
RlTakeFlat(rl, n) ==
    IF n = 0 \/ rl = << >> THEN << >>
    ELSE LET k == Min2(n, Head(rl)[2])
         IN [i \in 1..k |-> Head(rl)[1]] \o RlTakeFlat(Tail(rl), n - k)

(* the rl string without its first n bytes *)
RECURSIVE RlDrop(_, _)
RlDrop(rl, n) ==
    IF n = 0 \/ rl = << >> THEN rl
    ELSE IF Head(rl)[2] <= n THEN RlDrop(Tail(rl), n - Head(rl)[2])
    ELSE << << Head(rl)[1], Head(rl)[2] - n >> >> \o Tail(rl)

=============================================================================
