----------------------------- MODULE BuilderLen -----------------------------
(***************************************************************************)
(* Integer abstraction of the length-field logic of `v2::Builder`, small   *)
(* enough for Apalache to discharge C09 as an INDUCTIVE invariant, i.e.    *)
(* for call histories of unbounded length (TLC's MC_Builder is bounded in  *)
(* depth).  Only lengths are tracked:                                      *)
(*   hdr      the buffer exists (write_header ran)                         *)
(*   len      explicit length in force, -1 = none                          *)
(*   payload  bytes after the 16-byte fixed part once the buffer exists    *)
(*   addr     size of the construction-time address block                  *)
(*   field    what write_header put into the length field                  *)
(*   built    -2 = build not called yet, -1 = build failed, otherwise the  *)
(*            length field of the returned header                          *)
(* `Pinned = TRUE` selects the build() of the pinned revision (defect F7), *)
(* for which Apalache produces a counterexample.                           *)
(***************************************************************************)
EXTENDS Integers

CONSTANT
    \* @type: Bool;
    Pinned

VARIABLES
    \* @type: Bool;
    hdr,
    \* @type: Int;
    len,
    \* @type: Int;
    payload,
    \* @type: Int;
    addr,
    \* @type: Int;
    field,
    \* @type: Int;
    built

MaxU16 == 65535

ConstFixed == Pinned = FALSE
ConstPinned == Pinned = TRUE

Total == IF hdr THEN payload ELSE addr

Init ==
    /\ hdr = FALSE /\ len = -1 /\ payload = 0 /\ field = 0 /\ built = -2
    /\ addr \in {0, 12, 36, 216}

SetLength ==
    /\ built = -2
    /\ \E v \in -1..MaxU16 : len' = v
    /\ UNCHANGED << hdr, payload, addr, field, built >>

(* any successful write of n bytes; the first one lays the header down *)
Write ==
    /\ built = -2
    /\ \E n \in 0..(MaxU16 + 3) :
        /\ payload' = Total + n
    /\ hdr' = TRUE
    /\ field' = IF hdr THEN field ELSE (IF len = -1 THEN 0 ELSE len)
    /\ UNCHANGED << len, addr, built >>

Build ==
    /\ built = -2
    /\ built' = IF len # -1
                THEN (IF Pinned /\ hdr THEN field ELSE len)
                ELSE (IF Total <= MaxU16 THEN Total ELSE -1)
    /\ hdr' = TRUE
    /\ field' = IF hdr THEN field ELSE (IF len = -1 THEN 0 ELSE len)
    /\ payload' = Total
    /\ UNCHANGED << len, addr >>

Done == built # -2 /\ UNCHANGED << hdr, len, payload, addr, field, built >>

Next == SetLength \/ Write \/ Build \/ Done

(* C09 *)
C09 ==
    /\ built >= 0 => built = (IF len # -1 THEN len ELSE Total)
    /\ built = -1 => (len = -1 /\ Total > MaxU16)
    /\ (built # -2 /\ len = -1 /\ Total > MaxU16) => built = -1

TypeOK ==
    /\ hdr \in BOOLEAN
    /\ len \in -1..MaxU16
    /\ payload \in Nat
    /\ addr \in {0, 12, 36, 216}
    /\ field \in 0..MaxU16
    /\ built \in -2..MaxU16

IndInv == TypeOK /\ C09 /\ (~hdr => payload = 0)

(* an arbitrary state satisfying the invariant (every variable is assigned first) *)
IndInit ==
    /\ hdr \in BOOLEAN
    /\ len \in -1..MaxU16
    /\ payload \in Nat
    /\ addr \in {0, 12, 36, 216}
    /\ field \in 0..MaxU16
    /\ built \in -2..MaxU16
    /\ IndInv

=============================================================================
