---------------------------- MODULE MC_StreamV2 -----------------------------
(***************************************************************************)
(* Bounded model of the streaming receiver on binary headers.              *)
(*                                                                         *)
(* A behaviour: choose a well-formed v2 header (command x family x         *)
(* transport x declared length at the family's boundaries x TLV tail),     *)
(* optionally corrupt ONE element (a signature byte, the version, command, *)
(* family or transport nibble, the declared length), append a trailer and  *)
(* deliver it in chunks -- one byte per read for short streams, the        *)
(* boundary positions for Unix-sized ones -- so every cut point that       *)
(* matters is a state.  Verdicts come from the implementation-shaped       *)
(* specification; the invariants are the property predicates.              *)
(***************************************************************************)
EXTENDS StreamModel, Ascii, Json

CONSTANT Level          \* 1 = quick, 2 = thorough

VARIABLES full, cuts, tag, hprev, lastChunk

mvars == << buf, verdict, hist, full, cuts, tag, hprev, lastChunk >>

Distinct(n, seed) == [i \in 1..n |-> (seed + i * 7) % 256]

TlvTails ==
    IF Level = 1 THEN { << >>, << 4, 0, 1, 42 >>, << 9, 0 >> }
    ELSE { << >>, << 4, 0, 1, 42 >>, << 1, 0, 0, 32, 0, 2, 5, 6 >>, << 9, 0 >>, << 9, 0, 5, 1 >>, << 238, 0, 0 >>,
           (* a PP2_TYPE_SSL value as HAProxy nests it: client flags (even), verify, a version sub-TLV *)
           << 32, 0, 12, 0, 0, 0, 0, 0, 33, 0, 4, 84, 76, 83, 49 >> }

Commands   == {0, 1}
Families   == {0, 1, 2, 3}
Transports == IF Level = 1 THEN {0, 1} ELSE {0, 1, 2}

Header(cmd, fam, tr, tail) ==
    LET body == Distinct(V2!FamilySize(fam), fam * 50 + 1) \o tail
    IN  V2!Signature \o << 32 + cmd, fam * 16 + tr >> \o U16Bytes(Len(body)) \o body

(* address blocks that mean something to address-aware code: both / one IPv6 address
   IPv4-mapped, source = destination *)
Mapped(a) == << 0, 0, 0, 0, 0, 0, 0, 0, 0, 0, 255, 255, 192, 0, 2, a >>
SpecialBlocks ==
    { [fam |-> 2, body |-> Mapped(1) \o Mapped(2) \o << 0, 80, 1, 187 >>],
      [fam |-> 2, body |-> Mapped(1) \o Distinct(16, 7) \o << 0, 80, 1, 187 >>],
      [fam |-> 2, body |-> Distinct(16, 9) \o Distinct(16, 9) \o << 1, 2, 1, 2 >>],
      [fam |-> 1, body |-> << 10, 0, 0, 1, 10, 0, 0, 1, 0, 80, 0, 80 >>],
      [fam |-> 1, body |-> [i \in 1..12 |-> 0]],
      [fam |-> 1, body |-> V2!Signature],        \* an address block that spells the protocol's own signature
      [fam |-> 2, body |-> [i \in 1..36 |-> 0]],
      [fam |-> 2, body |-> << 254, 128, 0, 4 >> \o Distinct(12, 3) \o << 255, 2 >> \o Distinct(14, 5) \o << 0, 1, 0, 2 >>] }

SpecialHeader(cmd, tr, blk, tail) ==
    V2!Signature \o << 32 + cmd, blk.fam * 16 + tr >> \o U16Bytes(Len(blk.body) + Len(tail)) \o blk.body \o tail

Bases == { Header(c, f, t, tail) : c \in Commands, f \in Families, t \in Transports, tail \in TlvTails }
         \cup { SpecialHeader(c, 1, blk, tail) : c \in Commands, blk \in SpecialBlocks, tail \in { << >>, << 4, 0, 1, 42 >> } }

(* corruptions of one element: [elem, idx, val] *)
Corruptions(base) ==
    LET fam == V2!Hi(base[14])
        sig == { [elem |-> "sig", idx |-> i, val |-> v] :
                 i \in (IF Level = 1 THEN {1, 12} ELSE {1, 2, 5, 8, 12}), v \in {0, 80} }
        nib == { [elem |-> "version", idx |-> 0, val |-> v] : v \in (IF Level = 1 THEN {1, 3} ELSE {0, 1, 3, 15}) }
               \cup { [elem |-> "command", idx |-> 0, val |-> v] : v \in (IF Level = 1 THEN {2} ELSE {2, 3, 15}) }
               \cup { [elem |-> "family", idx |-> 0, val |-> v] : v \in (IF Level = 1 THEN {4} ELSE {4, 5, 15}) }
               \cup { [elem |-> "transport", idx |-> 0, val |-> v] : v \in (IF Level = 1 THEN {3} ELSE {3, 4, 15}) }
        len == IF V2!FamilySize(fam) = 0 THEN {}
               ELSE { [elem |-> "length", idx |-> 0, val |-> v] : v \in {0, V2!FamilySize(fam) - 1} }
    IN  sig \cup nib \cup len

Corrupt(base, c) ==
    CASE c.elem = "sig" -> [base EXCEPT ![c.idx] = c.val]
      [] c.elem = "version" -> [base EXCEPT ![13] = c.val * 16 + V2!Lo(base[13])]
      [] c.elem = "command" -> [base EXCEPT ![13] = V2!Hi(base[13]) * 16 + c.val]
      [] c.elem = "family" -> [base EXCEPT ![14] = c.val * 16 + V2!Lo(base[14])]
      [] c.elem = "transport" -> [base EXCEPT ![14] = V2!Hi(base[14]) * 16 + c.val]
      [] OTHER -> [base EXCEPT ![15] = c.val \div 256, ![16] = c.val % 256]

Trailers ==
    IF Level = 1 THEN { << >>, << 7 >> }
    ELSE { << >>, << 7 >>, << 13, 10 >>, Header(1, 1, 1, << >>), B("PROXY UNKNOWN\r\n") }

CutsFor(bytes, hdrLen) ==
    LET n == Len(bytes)
    IN  IF n <= 64 THEN 1..n
        ELSE ((1..18) \cup {hdrLen - 1, hdrLen, hdrLen + 1, 16 + 215, 16 + 216, 16 + 217, n - 1, n}) \cap (1..n)

Streams ==
    LET plain == { [bytes |-> b \o t, hl |-> Len(b), tag |-> [g |-> "mc", base |-> RlOf(b), elem |-> "none", idx |-> 0, val |-> 0]] :
                   b \in Bases, t \in Trailers }
        corrupted == UNION { { [bytes |-> Corrupt(b, c) \o t, hl |-> Len(b),
                                tag |-> [g |-> "c12v2", base |-> RlOf(b), elem |-> c.elem, idx |-> c.idx, val |-> c.val]] :
                               c \in Corruptions(b), t \in (IF Level = 1 THEN {<< >>} ELSE {<< >>, << 7 >>}) } :
                             b \in { x \in Bases : V2!Lo(x[14]) = 1 /\ (Level = 2 \/ Len(x) <= 64) } }
    IN  { [bytes |-> s.bytes, cuts |-> CutsFor(s.bytes, s.hl), tag |-> s.tag] : s \in plain \cup corrupted }

MCInit ==
    \E s \in Streams :
        /\ full = s.bytes
        /\ cuts = s.cuts
        /\ tag = s.tag
        /\ buf = << >>
        /\ verdict = ModelVerdict(<< >>)
        /\ hprev = Hist0
        /\ hist = NextHist(Hist0, << >>, ModelVerdict(<< >>))
        /\ lastChunk = 0

NextCut == LET later == { c \in cuts : c > Len(buf) } IN CHOOSE c \in later : \A d \in later : c <= d

MCRecv ==
    /\ Len(buf) < Len(full)
    /\ LET chunk == SubSeq(full, Len(buf) + 1, NextCut)
       IN  /\ Recv(chunk, ModelVerdict(buf \o chunk))
           /\ lastChunk' = Len(chunk)
    /\ hprev' = hist
    /\ UNCHANGED << full, cuts, tag >>

MCNext == MCRecv
MCSpec == MCInit /\ [][MCNext]_mvars

NoFails(S) == S = {}

RECURSIVE SortedSeq(_)
SortedSeq(S) == IF S = {} THEN << >>
                ELSE LET m == CHOOSE x \in S : \A y \in S : x <= y IN << m >> \o SortedSeq(S \ {m})

InvC02 == NoFails(C02_Fails(buf, verdict))
InvC03 == NoFails(C03_Fails(buf, verdict))
InvC04 == NoFails(C04_Fails(buf, verdict, hprev))
InvC05 == NoFails(C05_Fails(buf, verdict, hprev))
InvC06 == NoFails(C06_Fails(buf, verdict))
InvC11 == NoFails(C11_Fails(buf, verdict))
InvC12 == NoFails(C12_Eval(tag, buf, verdict).f)
InvC14 == NoFails(C14_Fails(buf, verdict))
InvC16 == NoFails(C16_Fails(buf, verdict))
InvC17 == NoFails(C17_Fails(buf, verdict, hprev, lastChunk))

Export ==
    (buf = full) =>
        PrintT("SCN" \o ToJson([fam |-> "stream", tag |-> tag, rl |-> RlOf(full), cuts |-> SortedSeq(cuts),
                                final |-> [e \in {"v1b", "v2", "auto"} |-> verdict[e].k]]))

=============================================================================
