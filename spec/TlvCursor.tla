----------------------------- MODULE TlvCursor -----------------------------
(***************************************************************************)
(* Integer abstraction of the TLV cursor (Tlv.tla) for Apalache: the bytes *)
(* are forgotten, a declared length is any value 0..65535.  Small enough   *)
(* for an INDUCTIVE invariant, i.e. for sections of ANY length and any     *)
(* number of next() calls (TLC's MC_Tlv is bounded): the cursor stays in   *)
(* range, nothing is yielded after an error or the end, and at most        *)
(* len/3 + 1 items are yielded (C03's bound, C11's "then stops").          *)
(*   len    length of the section                                          *)
(*   off    the cursor                                                     *)
(*   items  items yielded so far (the error item included)                 *)
(*   errd   an error item was yielded                                      *)
(*   last   what the latest next() returned: "ok" / "err" / "none" / "-"   *)
(* MC_Tlv checks, with TLC, that Tlv.tla refines this module under the     *)
(* mapping len = Len(section), off = offset, items = number of real items  *)
(* yielded, errd = some yielded item is an error (`RefinesAbstract`).      *)
(* `Skewed = TRUE` selects a cursor that forgets to stop after an overrun  *)
(* (for which Apalache produces a counterexample).                         *)
(***************************************************************************)
EXTENDS Integers

CONSTANT
    \* @type: Bool;
    Skewed

VARIABLES
    \* @type: Int;
    len,
    \* @type: Int;
    off,
    \* @type: Int;
    items,
    \* @type: Bool;
    errd,
    \* @type: Str;
    last

vars == << len, off, items, errd, last >>

ConstFaithful == Skewed = FALSE
ConstSkewed == Skewed = TRUE

Init == len \in Nat /\ off = 0 /\ items = 0 /\ errd = FALSE /\ last = "-"

AtEnd ==
    /\ off >= len
    /\ last' = "none"
    /\ UNCHANGED << len, off, items, errd >>

Leftover ==
    /\ off < len /\ len - off < 3
    /\ off' = len /\ items' = items + 1 /\ errd' = TRUE /\ last' = "err"
    /\ UNCHANGED len

(* an item whose declared length is l *)
ItemWith(l) ==
    /\ off < len /\ len - off >= 3
    /\ IF len - off < 3 + l
       THEN /\ off' = (IF Skewed THEN off + 3 ELSE len)
            /\ items' = items + 1 /\ errd' = TRUE /\ last' = "err"
       ELSE /\ off' = off + 3 + l
            /\ items' = items + 1 /\ errd' = errd /\ last' = "ok"
    /\ UNCHANGED len

Item == \E l \in 0..65535 : ItemWith(l)

Next == AtEnd \/ Leftover \/ Item

(* what the properties ask of the cursor *)
InRange == 0 <= off /\ off <= len
Bound == 3 * (items - 1) <= len                    \* items <= len / 3 + 1
StopsAfterError == errd => off = len                \* hence every later call takes AtEnd

Safe == InRange /\ Bound /\ StopsAfterError

(* inductive strengthening: every ok item consumed at least three bytes; the error item at least one *)
IndInv ==
    /\ len >= 0 /\ items >= 0
    /\ InRange
    /\ last \in {"-", "ok", "err", "none"}
    /\ errd \in BOOLEAN
    /\ len \in Int /\ off \in Int /\ items \in Int
    /\ (~errd => 3 * items <= off)
    /\ (errd => off = len /\ items >= 1 /\ 3 * (items - 1) < len)

IndInit ==
    /\ len \in Int /\ off \in Int /\ items \in Int /\ errd \in BOOLEAN /\ last \in {"-", "ok", "err", "none"}
    /\ IndInv

(* sanity targets for the inductive set-up: both must be VIOLATED from IndInit *)
NeverMoves == off = 0
NeverErrs == ~errd

=============================================================================
