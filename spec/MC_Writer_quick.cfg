SPECIFICATION WSpec
CONSTANTS
    MaxDepth = 1
    Level = 1
INVARIANTS InvC20 InvIntWidth InvTlvPair WExport
CHECK_DEADLOCK FALSE
