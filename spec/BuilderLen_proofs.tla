------------------------- MODULE BuilderLen_proofs --------------------------
(***************************************************************************)
(* TLAPS proofs for the integer abstraction of the builder's length-field  *)
(* logic: on the repaired build() (Pinned = FALSE) IndInv is an inductive  *)
(* invariant over call histories of any length and implies C09.  The same  *)
(* statement is checked by Apalache (bin/props.py, BUILDER_LEN_APALACHE);  *)
(* the proof does not depend on a bound for the number of calls or on the  *)
(* sizes written.  Checked with `tlapm BuilderLen_proofs.tla` (bin/setup,  *)
(* and bin/check C09 --tier thorough, when tlapm is installed).            *)
(***************************************************************************)
EXTENDS BuilderLen, TLAPS

ASSUME Repaired == Pinned = FALSE

vars == << hdr, len, payload, addr, field, built >>

Spec == Init /\ [][Next]_vars

THEOREM InitInv == Init => IndInv
  BY DEF Init, IndInv, TypeOK, C09, Total, MaxU16

THEOREM Step == IndInv /\ [Next]_vars => IndInv'
<1> SUFFICES ASSUME IndInv, [Next]_vars PROVE IndInv'
  OBVIOUS
<1>1. CASE SetLength
  BY <1>1 DEF SetLength, IndInv, TypeOK, C09, Total, MaxU16
<1>2. CASE Write
  <2> PICK n \in 0..(MaxU16 + 3) : payload' = Total + n
    BY <1>2 DEF Write
  <2> QED
    BY <1>2 DEF Write, IndInv, TypeOK, C09, Total, MaxU16
<1>3. CASE Build
  BY <1>3, Repaired DEF Build, IndInv, TypeOK, C09, Total, MaxU16
<1>4. CASE Done
  BY <1>4 DEF Done, IndInv, TypeOK, C09, Total, MaxU16
<1>5. CASE UNCHANGED vars
  BY <1>5 DEF vars, IndInv, TypeOK, C09, Total, MaxU16
<1> QED
  BY <1>1, <1>2, <1>3, <1>4, <1>5 DEF Next

THEOREM Implies == IndInv => C09
  BY DEF IndInv

THEOREM Safety == Spec => []C09
<1>1. Spec => []IndInv
  BY InitInv, Step, PTL DEF Spec
<1> QED
  BY <1>1, Implies, PTL

=============================================================================
