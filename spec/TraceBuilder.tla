--------------------------- MODULE TraceBuilder ----------------------------
(***************************************************************************)
(* Trace validation for the `builder` and `writer` families.               *)
(*                                                                         *)
(* builder: BReset, a constructor (BNew | BWith), calls (BReserve, BSetLen, *)
(* BWrite, BWrites, BTlv) and BBuild.  Every event carries the call's own  *)
(* outcome `r` and `built`: what `build()` returns for the call sequence   *)
(* up to and including this call (the projection of the builder's abstract *)
(* state through the public API).  Each event is the like-named action of  *)
(* Builder.tla; the predicates C07 / C09 / C10 / C13 are evaluated on the   *)
(* state after it.  `Parsed` / `ParseBack` carry a parse of real bytes.    *)
(*                                                                         *)
(* writer: WFrom(prefill), WWrite(value) with the returned count, the      *)
(* buffer afterwards and `to_bytes()` of the same value (C20).             *)
(***************************************************************************)
EXTENDS Builder, Json, IOUtils, TLC

CONSTANT Props

TlvW == INSTANCE TlvWalk

Rec == ndJsonDeserialize(IOEnv.TRACE)

VARIABLES l, sess, parsed, pairA, w, wGated

tvars == << b, l, sess, parsed, pairA, w, wGated >>

Ev == Rec[l]
IsEvent(name) == l <= Len(Rec) /\ Ev.op = name /\ l' = l + 1

Sel(p, S) == IF p \in Props THEN S ELSE {}
Flag(p, c) == IF p \in Props /\ c THEN {p} ELSE {}

Emit(fails, nts) ==
    IF fails = {} /\ nts = {} THEN TRUE
    ELSE PrintT(ToJson([ev |-> l, fails |-> fails, nt |-> nts]))

Sess0(tag) == [tag |-> tag, ops |-> << >>, tlvOnly |-> TRUE, noSetLen |-> TRUE, tlvs |-> << >>, big |-> FALSE]

Dead == [AfterNew(0, 0) EXCEPT !.alive = FALSE]

TraceInit ==
    /\ b = Dead /\ l = 1 /\ sess = Sess0([g |-> "none"])
    /\ parsed = [k |-> "none"] /\ pairA = [pair |-> -1, built |-> [k |-> "none"]] /\ w = << >> /\ wGated = TRUE

(* what an observed `built` must look like next to the model's prediction (drift only) *)
SameBuilt(obs, exp) == obs.k = exp.k /\ (exp.k = "ok" => obs.v = exp.v)

BuiltChecks(s, built) ==
    Sel("C09", C09_Fails(s, built))
    \cup Sel("C10", C10_Fails(s, built))
    \cup Sel("C03", IF built.k = "panic" THEN {<< "C03", "panic", "build" >>} ELSE {})
    \cup Sel("DRIFT", IF s.alive /\ built.k \in {"ok", "err"} /\ ~SameBuilt(built, BuildResult(s))
                      THEN {<< "DRIFT", "build-result", "build" >>} ELSE {})

BuiltFlags(s, built) ==
    Flag("C09", s.alive /\ built.k \in {"ok", "err"}) \cup Flag("C10", s.alive /\ built.k = "ok")
    \cup Flag("C03", TRUE)

TraceBReset ==
    /\ IsEvent("BReset")
    /\ sess' = Sess0(Ev.tag)
    /\ b' = Dead
    /\ UNCHANGED << parsed, pairA, w, wGated >>

TraceBNew ==
    /\ IsEvent("BNew")
    /\ LET s == AfterNew(Ev.vc, Ev.afp)
       IN  /\ b' = s
           /\ sess' = [sess EXCEPT !.ops = << << "BNew", Ev.vc, Ev.afp >> >>]
           /\ Emit(BuiltChecks(s, Ev.built), BuiltFlags(s, Ev.built))
    /\ UNCHANGED << parsed, pairA, w, wGated >>

TraceBWith ==
    /\ IsEvent("BWith")
    /\ LET s == AfterWithAddresses(Ev.vc, Ev.tr, Ev.a)
       IN  /\ b' = s
           /\ sess' = [sess EXCEPT !.ops = << << "BWith", Ev.vc, Ev.tr, Ev.a >> >>]
           /\ Emit(BuiltChecks(s, Ev.built), BuiltFlags(s, Ev.built))
    /\ UNCHANGED << parsed, pairA, w, wGated >>

TraceBReserve ==
    /\ IsEvent("BReserve")
    /\ LET s == AfterReserve(b, Ev.n)
       IN  /\ b' = s
           /\ sess' = sess
           /\ Emit(BuiltChecks(s, Ev.built) \cup Sel("C10", IF Ev.r # "ok" THEN {<< "C10", "reserve-failed", "reserve" >>} ELSE {}),
                   BuiltFlags(s, Ev.built))
    /\ UNCHANGED << parsed, pairA, w, wGated >>

TraceBSetLen ==
    /\ IsEvent("BSetLen")
    /\ LET s == AfterSetLength(b, Ev.v)
       IN  /\ b' = s
           /\ sess' = [sess EXCEPT !.noSetLen = FALSE]
           /\ Emit(BuiltChecks(s, Ev.built), BuiltFlags(s, Ev.built))
    /\ UNCHANGED << parsed, pairA, w, wGated >>

(* common part of the three write events; ps = the payloads, opRec = how the call is remembered *)
WriteEvent(ps, opRec) ==
    LET model == AfterWritePayloads(b, ps)
        refused == \E i \in 1..Len(ps) : Refused(ps[i])
        s == IF Ev.r = "ok" THEN AfterWritePayloadsOk(b, ps) ELSE [b EXCEPT !.alive = FALSE]
        isTlv(p) == p.ty \in {"tlv", "pair"}
    IN  /\ b' = s
        /\ sess' = [sess EXCEPT !.ops = sess.ops \o opRec,
                                !.tlvOnly = sess.tlvOnly /\ \A i \in 1..Len(ps) : isTlv(ps[i]),
                                !.tlvs = sess.tlvs \o [i \in 1..Len(ps) |-> IF isTlv(ps[i]) THEN [t |-> KindCode(ps[i].t), v |-> ps[i].v] ELSE [t |-> -1, v |-> << >>]]]
        /\ Emit(Sel("C09", IF refused /\ Ev.r = "ok" THEN {<< "C09", "oversized-value-not-refused", "write" >>} ELSE {})
                \cup Sel("C07", IF sess.tag.g = "bwire" /\ sess.tlvOnly /\ sess.noSetLen /\ Len(sess.ops) >= 1 /\ sess.ops[1][1] = "BWith"
                                    /\ sess.ops[1][2] \in {32, 33} /\ (\A i \in 1..Len(ps) : isTlv(ps[i]))
                                    /\ b.alive /\ Ev.r = "err" /\ ~refused
                                    /\ RlLen(ExpectedPayload(AfterWritePayloadsOk(b, ps))) <= MaxU16
                                 THEN {<< "C07", "tlv-refused-although-the-encoding-fits", "write" >>} ELSE {})
                \cup Sel("C03", IF Ev.r = "panic" THEN {<< "C03", "panic", "write" >>} ELSE {})
                \cup Sel("DRIFT", IF Ev.r \in {"ok", "err"} /\ model.alive # (Ev.r = "ok") THEN {<< "DRIFT", "write-outcome", "write" >>} ELSE {})
                \cup (IF Ev.r = "ok" THEN BuiltChecks(s, Ev.built) ELSE {}),
                (IF Ev.r = "ok" THEN BuiltFlags(s, Ev.built) ELSE {}) \cup Flag("C09", refused))

TraceBWrite ==
    /\ IsEvent("BWrite")
    /\ WriteEvent(<< Ev.p >>, << << "BWrite", Ev.p >> >>)
    /\ UNCHANGED << parsed, pairA, w, wGated >>

TraceBWrites ==
    /\ IsEvent("BWrites")
    /\ WriteEvent(Ev.ps, << << "BWrites", Ev.ps >> >>)
    /\ UNCHANGED << parsed, pairA, w, wGated >>

(* a batch given as runs << payload, count >> (tens of thousands of items, most of which encode to
   nothing): the state follows the observed outcome; when the call succeeded the output grows by
   every run's encoding repeated count times, in order *)
RECURSIVE RlRepeat(_, _)
RlRepeat(enc, n) ==
    IF n = 0 \/ enc = << >> THEN << >>
    ELSE IF Len(enc) = 1 THEN << << enc[1][1], enc[1][2] * n >> >>
    ELSE RlCat(enc, RlRepeat(enc, n - 1))

TraceBWritesRep ==
    /\ IsEvent("BWritesRep")
    /\ LET runs == Ev.runs
           encs == [i \in 1..Len(runs) |-> RlRepeat(Encode(runs[i].p), runs[i].n)]
           refused == \E i \in 1..Len(runs) : runs[i].n > 0 /\ Refused(runs[i].p)
           s == IF Ev.r = "ok"
                THEN [b EXCEPT !.header = RlCat(HeaderLaidDown(b), RlConcat(encs)), !.written = b.written \o encs,
                               !.fieldAt = FieldLaidDown(b)]
                ELSE [b EXCEPT !.alive = FALSE]
       IN  /\ b' = s
           /\ sess' = [sess EXCEPT !.ops = sess.ops \o << << "BWritesRep", runs >> >>, !.tlvOnly = FALSE]
           /\ Emit(Sel("C09", IF refused /\ Ev.r = "ok" THEN {<< "C09", "oversized-value-not-refused", "write" >>} ELSE {})
                   \cup Sel("C03", IF Ev.r = "panic" THEN {<< "C03", "panic", "write" >>} ELSE {})
                   \cup (IF Ev.r = "ok" THEN BuiltChecks(s, Ev.built) ELSE {}),
                   (IF Ev.r = "ok" THEN BuiltFlags(s, Ev.built) ELSE {}) \cup Flag("C09", refused))
    /\ UNCHANGED << parsed, pairA, w, wGated >>

TraceBTlv ==
    /\ IsEvent("BTlv")
    /\ WriteEvent(<< [ty |-> "tlv", t |-> Ev.t, v |-> Ev.v] >>, << << "BTlv", Ev.t, Ev.v >> >>)
    /\ UNCHANGED << parsed, pairA, w, wGated >>

(* ---- C13: the ops of a rebuild session must be the observed parts of the parsed header ---- *)
ExpectedRebuildOps(mode) ==
    LET o == parsed.obs
        raw == RlTakeFlat(o.raw, 16)
        ab == o.vw.ab
        tb == o.vw.tb
        items == o.vw.walk.items
        okItems == SelectSeq(items, LAMBDA x : x.k = "ok")
    IN  CASE mode \in {"raw", "typed"} -> << << "BNew", raw[13], raw[14] >>, << "BWrite", [ty |-> "slice", v |-> ab] >>, << "BWrite", [ty |-> "slice", v |-> tb] >> >>
          [] mode = "items" -> << << "BNew", raw[13], raw[14] >>, << "BWrite", [ty |-> "slice", v |-> ab] >> >>
                                \o [i \in 1..Len(okItems) |-> << "BTlv", [ty |-> "raw", code |-> okItems[i].t], okItems[i].v >>]
          [] mode = "peek" -> << << "BNew", raw[13], raw[14] >>, << "BWrite", [ty |-> "slice", v |-> ab] >>,
                                 << "BWrite", [ty |-> "tlvs", v |-> tb, adv |-> 1] >> >>
          [] mode = "value" -> << << "BNew", raw[13], raw[14] >>, << "BWrite", [ty |-> "slice", v |-> ab] >>,
                                  << "BWrite", [ty |-> "tlvs", v |-> tb] >> >>
          [] OTHER -> << << "BWith", raw[13], o.tr, o.addr >>, << "BWrite", [ty |-> "tlvs", v |-> tb] >> >>

C13(built) ==
    LET tag == sess.tag
        o == parsed.obs
        applicable == parsed.k = "parsed" /\ o.k = "ok" /\ o.vw.k = "ok"
                      /\ (tag.mode = "items" => \A i \in 1..Len(o.vw.walk.items) : o.vw.walk.items[i].k \in {"ok", "none"})
                      /\ (tag.mode = "addr" => o.addr.k # "Unspecified")
    IN  IF "C13" \notin Props \/ tag.g # "rebuild" THEN [f |-> {}, nt |-> FALSE]
        ELSE IF tag.mode = "items" /\ parsed.k = "parsed" /\ o.k = "ok" /\ o.vw.k = "ok" /\ o.vw.walk.n > 50
             THEN [f |-> {}, nt |-> FALSE]     \* the logged walk is abbreviated: not checked item by item
        ELSE IF ~applicable THEN [f |-> {<< "BIND", "rebuild-session-without-applicable-parse", tag.mode >>}, nt |-> FALSE]
        ELSE IF sess.ops # ExpectedRebuildOps(tag.mode)
             THEN LET exp == ExpectedRebuildOps(tag.mode)
                  IN  (* one of the calls failed, so the later ones were never made: the calls that were made
                         must still be the observed parts, and the rebuild did not reproduce the header *)
                      IF built.k = "err" /\ Len(sess.ops) < Len(exp) /\ sess.ops = SubSeq(exp, 1, Len(sess.ops))
                      THEN [f |-> {<< "C13", "a-call-of-the-rebuild-failed", tag.mode >>}, nt |-> TRUE]
                      ELSE [f |-> {<< "BIND", "rebuild-ops-are-not-the-observed-parts", tag.mode >>}, nt |-> FALSE]
        ELSE [f |-> IF built.k = "ok" /\ built.v = o.raw THEN {} ELSE {<< "C13", "rebuilt-header-differs", tag.mode >>}, nt |-> TRUE]

CapWalk(e) == IF Len(e) > 50 THEN SubSeq(e, 1, 40) \o SubSeq(e, Len(e) - 4, Len(e)) ELSE e

(* ---- C07: the wire format of a TLV-only build ---- *)
C07Applies == sess.tag.g = "bwire" /\ sess.tlvOnly /\ sess.noSetLen /\ Len(sess.ops) >= 1 /\ sess.ops[1][1] = "BWith"
              /\ sess.ops[1][2] \in {32, 33}

WireFormat(s) ==
    LET tlvBytes == RlConcat([i \in 1..Len(sess.tlvs) |-> EncodeTlv(sess.tlvs[i].t, sess.tlvs[i].v)])
        payload == RlCat(RlOf(V2!EncodeAddresses(AddrFlat(s.addresses))), tlvBytes)
        ctor == sess.ops[1]
        famTr == V2!FamilyCode(ctor[4].k) * 16 + V2!TransportCode(ctor[3])
    IN  RlCat(RlOf(V2!Signature \o << ctor[2], famTr >> \o U16Bytes(RlLen(payload) % 65536)), payload)

C07Build(s, built) ==
    IF "C07" \notin Props \/ ~C07Applies \/ ~s.alive THEN [f |-> {}, nt |-> FALSE]
    ELSE LET fits == RlLen(WireFormat(s)) - 16 <= MaxU16
         IN  [f |-> IF fits /\ ~(built.k = "ok" /\ built.v = WireFormat(s)) THEN {<< "C07", "not-the-wire-format", "build" >>} ELSE {},
              nt |-> fits]

TraceBBuild ==
    /\ IsEvent("BBuild")
    /\ LET c13 == C13(Ev.built)
           c07 == C07Build(b, Ev.built)
           tag == sess.tag
           pairFails ==
               IF "C10" \in Props /\ tag.g = "bpairs" /\ tag.side = "b" /\ pairA.pair = tag.pair
                  /\ pairA.built.k \in {"ok", "err"} /\ Ev.built.k \in {"ok", "err"} /\ ~SameBuilt(Ev.built, pairA.built)
               THEN {<< "C10", "reservation-or-batching-changed-output", "build" >>} ELSE {}
       IN  /\ Emit(BuiltChecks(b, Ev.built) \cup c13.f \cup c07.f \cup pairFails,
                   BuiltFlags(b, Ev.built) \cup Flag("C13", c13.nt) \cup Flag("C07", c07.nt))
           /\ pairA' = IF tag.g = "bpairs" /\ tag.side = "a" THEN [pair |-> tag.pair, built |-> Ev.built] ELSE pairA
    /\ UNCHANGED << b, sess, parsed, w, wGated >>

TraceParsed ==
    /\ IsEvent("Parsed")
    /\ parsed' = [k |-> "parsed", obs |-> Ev.obs]
    /\ Emit(Sel("C03", IF Ev.obs.k = "panic" THEN {<< "C03", "panic", "v2" >>} ELSE {}), {})
    /\ UNCHANGED << b, sess, pairA, w, wGated >>

(* parse of what a bwire session built *)
TraceParseBack ==
    /\ IsEvent("ParseBack")
    /\ LET o == Ev.obs
           ctor == sess.ops[1]
           s == b
           expItems == [i \in 1..Len(sess.tlvs) |-> [k |-> "ok", t |-> sess.tlvs[i].t, v |-> sess.tlvs[i].v]]
           gotItems == IF o.k = "ok" /\ o.vw.k = "ok"
                       THEN [i \in 1..Len(o.vw.walk.items) |-> IF o.vw.walk.items[i].k = "ok"
                                                               THEN [k |-> "ok", t |-> o.vw.walk.items[i].t, v |-> o.vw.walk.items[i].v]
                                                               ELSE [k |-> o.vw.walk.items[i].k]]
                       ELSE << >>
           none3 == << [k |-> "none"], [k |-> "none"], [k |-> "none"] >>
           applies == "C07" \in Props /\ C07Applies /\ s.alive /\ RlLen(WireFormat(s)) - 16 <= MaxU16
           fails ==
               IF o.k # "ok" THEN {<< "C07", "built-header-does-not-parse", "v2" >>}
               ELSE (IF o.cmd # V2!CommandName(ctor[2] % 16) \/ o.tr # ctor[3] \/ o.addr # ctor[4] THEN {<< "C07", "parse-back-fields", "v2" >>} ELSE {})
                    \cup (IF o.raw # Ev.input THEN {<< "C07", "parse-back-bytes", "v2" >>} ELSE {})
                    \cup (IF ctor[4].k # "Unspecified" /\ (gotItems # CapWalk(expItems \o none3) \/ o.vw.walk.n # Len(expItems) + 3)
                          THEN {<< "C07", "parse-back-tlvs", "v2" >>} ELSE {})
       IN  Emit(IF applies THEN fails ELSE {}, Flag("C07", applies))
    /\ UNCHANGED << b, sess, parsed, pairA, w, wGated >>

(* ---- writer ---- *)
TraceWFrom ==
    /\ IsEvent("WFrom")
    /\ w' = Ev.pre
    /\ wGated' = TRUE
    /\ UNCHANGED << b, sess, parsed, pairA >>

C20_Fails(cur, p, r, fin, tb) ==
    IF r.k = "panic" THEN {}
    ELSE IF RlLen(cur) > 4096 THEN {}           \* only writers well below their size limit
    ELSE IF tb.k = "panic"                      \* (a panic is C03's; but a conversion that panics where the write succeeds
         THEN (IF r.k = "ok" THEN {<< "C20", "to_bytes-panics-where-write_to-succeeds", p.ty >>} ELSE {})   \*  does not give the same encoding)
    ELSE IF Refused(p)
         THEN (IF r.k # "err" \/ fin # cur THEN {<< "C20", "oversized-value-not-refused-cleanly", p.ty >>} ELSE {})
              \cup (IF tb.k # "err" THEN {<< "C20", "to_bytes-of-oversized-value", p.ty >>} ELSE {})
         ELSE (IF r.k # "ok" THEN {<< "C20", "write-failed", p.ty >>}
               ELSE (IF r.n # RlLen(Encode(p)) THEN {<< "C20", "reported-size", p.ty >>} ELSE {})
                    \cup (IF fin # RlCat(cur, Encode(p)) THEN {<< "C20", "appended-bytes", p.ty >>} ELSE {}))
              \cup (IF ~(tb.k = "ok" /\ tb.v = Encode(p)) THEN {<< "C20", "to_bytes", p.ty >>} ELSE {})

TraceWWrite ==
    /\ IsEvent("WWrite")
    /\ LET model == WriteTo(w, Ev.p)
       IN  Emit(Sel("C20", C20_Fails(w, Ev.p, Ev.r, Ev.fin, Ev.tb))
                \cup Sel("C03", IF Ev.r.k = "panic" \/ Ev.tb.k = "panic" THEN {<< "C03", "panic", "write_to" >>} ELSE {})
                \cup Sel("DRIFT", IF Ev.r.k \in {"ok", "err"} /\ ((Ev.r.k = "ok") # model.ok \/ Ev.fin # model.bytes)
                                  THEN {<< "DRIFT", "writer-limit-behaviour", Ev.p.ty >>} ELSE {}),
                Flag("C20", RlLen(w) <= 4096) \cup Flag("C03", TRUE))
    /\ w' = Ev.fin
    /\ UNCHANGED << b, sess, parsed, pairA, wGated >>

(* one writer created with Writer::default() and kept across several writes *)
TraceWDefault ==
    /\ IsEvent("WDefault")
    /\ w' = << >>
    /\ wGated' = TRUE
    /\ UNCHANGED << b, sess, parsed, pairA >>

TraceWWriteP ==
    /\ IsEvent("WWriteP")
    /\ LET model == WriteTo(w, Ev.p)
           gated == RlLen(w) <= 4096
           fails == IF Ev.r.k = "panic" \/ ~gated \/ Ev.p.ty = "raw" THEN {}    \* a raw io::Write is not a value C20 speaks about
                    ELSE IF Refused(Ev.p) THEN (IF Ev.r.k # "err" THEN {<< "C20", "oversized-value-not-refused-cleanly", Ev.p.ty >>} ELSE {})
                    ELSE IF Ev.r.k # "ok" THEN {<< "C20", "write-failed", Ev.p.ty >>}
                    ELSE IF Ev.r.n # RlLen(Encode(Ev.p)) THEN {<< "C20", "reported-size", Ev.p.ty >>}
                    ELSE {}
       IN  /\ Emit(Sel("C20", fails)
                   \cup Sel("C03", IF Ev.r.k = "panic" THEN {<< "C03", "panic", "write_to" >>} ELSE {})
                   \cup Sel("DRIFT", IF Ev.r.k \in {"ok", "err"} /\ (Ev.r.k = "ok") # model.ok
                                     THEN {<< "DRIFT", "writer-limit-behaviour", Ev.p.ty >>} ELSE {}),
                   Flag("C20", gated) \cup Flag("C03", TRUE))
           /\ w' = IF Ev.r.k = "ok" THEN RlCat(w, Encode(Ev.p)) ELSE (IF ~model.ok THEN model.bytes ELSE w)
           /\ wGated' = (wGated /\ gated)
    /\ UNCHANGED << b, sess, parsed, pairA >>

TraceWFinish ==
    /\ IsEvent("WFinish")
    /\ Emit(Sel("C20", IF wGated /\ Ev.fin # w THEN {<< "C20", "appended-bytes", "persistent-writer" >>} ELSE {})
            \cup Sel("DRIFT", IF ~wGated /\ Ev.fin # w THEN {<< "DRIFT", "writer-contents", "persistent-writer" >>} ELSE {}),
            Flag("C20", wGated))
    /\ UNCHANGED << b, sess, parsed, pairA, w, wGated >>

TraceNext ==
    \/ TraceBReset \/ TraceBNew \/ TraceBWith \/ TraceBReserve \/ TraceBSetLen \/ TraceBWrite \/ TraceBWrites
    \/ TraceBTlv \/ TraceBWritesRep \/ TraceBBuild \/ TraceParsed \/ TraceParseBack \/ TraceWFrom \/ TraceWWrite
    \/ TraceWDefault \/ TraceWWriteP \/ TraceWFinish

TraceSpec == TraceInit /\ [][TraceNext]_tvars

TraceAccepted ==
    LET d == TLCGet("stats").diameter
    IN  IF d - 1 = Len(Rec) THEN TRUE
        ELSE Print(<< "TRACE-NOT-CONSUMED", d - 1, Len(Rec) >>, FALSE)

=============================================================================
