------------------------------ MODULE MC_Mixed ------------------------------
(***************************************************************************)
(* Bounded model for version auto-detection (C06): streams that mix both   *)
(* formats or sit on the border between them, delivered one byte per read: *)
(*   - every prefix of the v2 signature followed by a text line,           *)
(*   - a text line followed by a binary header and vice versa,             *)
(*   - every string up to MaxJunk bytes over {CR, LF, NUL, 'P'},           *)
(*   - a binary header whose fixed part is damaged after the signature.    *)
(* The verdicts are those of the implementation-shaped specification; the  *)
(* invariants are C06 (and C03 - C05 on the same states).                  *)
(***************************************************************************)
EXTENDS StreamModel, Ascii, Json

CONSTANT MaxJunk

VARIABLES full, tag, hprev

mvars == << buf, verdict, hist, full, tag, hprev >>

Line1 == B("PROXY TCP4 1.2.3.4 5.6.7.8 9 10\r\n")
Line2 == B("PROXY UNKNOWN\r\n")
Bin1  == V2!Signature \o << 33, 17, 0, 12, 1, 2, 3, 4, 5, 6, 7, 8, 0, 9, 1, 0 >>
Bin2  == V2!Signature \o << 32, 0, 0, 0 >>

Streams ==
    { SubSeq(V2!Signature, 1, k) \o l : k \in 0..12, l \in {Line1, Line2} }
    \cup { l \o b : l \in {Line1, Line2}, b \in {Bin1, Bin2} }
    \cup { b \o l : l \in {Line1, Line2}, b \in {Bin1, Bin2} }
    \cup { V2!Signature \o << vc, afp >> \o << 0, 0 >> \o Line2 : vc \in {33, 17, 47}, afp \in {0, 64, 15} }
    \cup UNION { [1..n -> {13, 10, 0, 80}] : n \in 0..MaxJunk }

MCInit ==
    \E s \in Streams :
        /\ full = s
        /\ tag = [g |-> "mc"]
        /\ buf = << >>
        /\ verdict = ModelVerdict(<< >>)
        /\ hprev = Hist0
        /\ hist = NextHist(Hist0, << >>, ModelVerdict(<< >>))

MCRecv ==
    /\ Len(buf) < Len(full)
    /\ LET chunk == << full[Len(buf) + 1] >> IN Recv(chunk, ModelVerdict(buf \o chunk))
    /\ hprev' = hist
    /\ UNCHANGED << full, tag >>

MCNext == MCRecv
MCSpec == MCInit /\ [][MCNext]_mvars

InvC03 == C03_Fails(buf, verdict) = {}
InvC04 == C04_Fails(buf, verdict, hprev) = {}
InvC05 == C05_Fails(buf, verdict, hprev) = {}
InvC06 == C06_Fails(buf, verdict) = {}

Export ==
    (buf = full) =>
        PrintT("SCN" \o ToJson([fam |-> "stream", tag |-> tag, bytes |-> full, cut |-> "each",
                                final |-> [e \in {"v1b", "v2", "auto"} |-> verdict[e].k],
                                autotag |-> verdict["auto"].tag]))

=============================================================================
