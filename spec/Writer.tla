------------------------------- MODULE Writer ------------------------------
(***************************************************************************)
(* The wire encoding of every value that implements `WriteToHeader`, and   *)
(* the `Writer` it is written into (src/v2/builder.rs).                    *)
(*                                                                         *)
(* Byte strings in this module are in canonical run-length form (Bytes),   *)
(* so that payloads of 65535 / 65536 bytes cost nothing.                   *)
(*                                                                         *)
(* A value is a record:                                                    *)
(*   [ty |-> "u8" | ... | "i128" | "usize" | "isize", neg, mag]  integer,  *)
(*        value = (-1)^neg * (mag read as a big-endian natural number)     *)
(*   [ty |-> "slice", v]            byte slice                             *)
(*   [ty |-> "addr", a]             address block (see V2!EncodeAddresses) *)
(*   [ty |-> "tlv" | "pair", t, v]  TypeLengthValue / (type, bytes) pair;  *)
(*        t = [ty |-> "raw", code] or [ty |-> "named", name]               *)
(*   [ty |-> "type", name]          a TLV type on its own (one byte)       *)
(*   [ty |-> "tlvs", v]             a raw TLV section                      *)
(*   [ty |-> "custom", v, ret]      not a value of the crate: a user-defined *)
(*        `WriteToHeader` value that appends v with write_all and returns  *)
(*        ret (whatever it likes; the Builder must not depend on it)       *)
(*   [ty |-> "raw", v]              not a value of the crate: one direct   *)
(*        `io::Write::write` of v on the writer (any size), then `flush`   *)
(***************************************************************************)
EXTENDS Bytes

V2 == INSTANCE V2

MaxU16 == 65535
(* `Writer::write` refuses once the buffer is LONGER than this *)
WriterLimit == MaxU16 + 16

IntWidth(ty) ==
    CASE ty \in {"u8", "i8"} -> 1
      [] ty \in {"u16", "i16"} -> 2
      [] ty \in {"u32", "i32"} -> 4
      [] ty \in {"u64", "i64", "usize", "isize"} -> 8      \* 64-bit target
      [] ty \in {"u128", "i128"} -> 16
      [] OTHER -> 0

IntTypes == {"u8", "u16", "u32", "u64", "u128", "usize", "i8", "i16", "i32", "i64", "i128", "isize"}

PadLeft(mag, w) == [i \in 1..(w - Len(mag)) |-> 0] \o mag

RECURSIVE IncFrom(_, _)
IncFrom(b, i) ==
    IF i = 0 THEN b
    ELSE IF b[i] = 255 THEN IncFrom([b EXCEPT ![i] = 0], i - 1)
    ELSE [b EXCEPT ![i] = b[i] + 1]

(* two's complement negation of a fixed-width big-endian number *)
Negate(b) == IncFrom([i \in 1..Len(b) |-> 255 - b[i]], Len(b))

(* big-endian, natural width, two's complement for negative values *)
EncodeInt(p) ==
    LET m == PadLeft(p.mag, IntWidth(p.ty))
    IN  IF p.neg THEN Negate(m) ELSE m

KindCode(t) == IF t.ty = "raw" THEN t.code ELSE V2!TypeCode(t.name)

AddrFlat(a) == IF a.k = "Unix" THEN [k |-> "Unix", src |-> Flat(a.src), dst |-> Flat(a.dst)] ELSE a

EncodeTlv(code, v) == RlCat(RlOf(<< code >> \o U16Bytes(RlLen(v) % 65536)), v)

(* the wire encoding of a value (run-length form) *)
Encode(p) ==
    CASE p.ty \in IntTypes -> RlOf(EncodeInt(p))
      [] p.ty = "slice" -> p.v
      [] p.ty = "addr" -> RlOf(V2!EncodeAddresses(AddrFlat(p.a)))
      [] p.ty \in {"tlv", "pair"} -> EncodeTlv(KindCode(p.t), p.v)
      [] p.ty = "type" -> << << V2!TypeCode(p.name), 1 >> >>
      [] p.ty \in {"tlvs", "raw", "custom"} -> p.v
      [] OTHER -> << >>

(* values whose 16-bit length cannot hold them are refused before anything is written *)
Refused(p) == p.ty \in {"tlv", "pair", "slice"} /\ RlLen(p.v) > MaxU16

(***************************************************************************)
(* Implementation-shaped: a value reaches the buffer as a sequence of      *)
(* `write_all` calls (pieces); each non-empty piece is refused when the    *)
(* buffer is already longer than WriterLimit, leaving earlier pieces in    *)
(* place.                                                                  *)
(***************************************************************************)
Pieces(p) ==
    CASE p.ty = "addr" ->
            LET a == AddrFlat(p.a)
            IN  CASE a.k \in {"IPv4", "IPv6"} -> << RlOf(a.sa), RlOf(a.da), RlOf(U16Bytes(a.sp)), RlOf(U16Bytes(a.dp)) >>
                  [] a.k = "Unix" -> << RlOf(a.src), RlOf(a.dst) >>
                  [] OTHER -> << >>
      [] p.ty \in {"tlv", "pair"} ->
            << RlOf(<< KindCode(p.t) >>), RlOf(U16Bytes(RlLen(p.v) % 65536)), p.v >>
      [] OTHER -> << Encode(p) >>

RECURSIVE WritePieces(_, _)
WritePieces(cur, pieces) ==
    IF pieces = << >> THEN [ok |-> TRUE, bytes |-> cur]
    ELSE IF Head(pieces) = << >> THEN WritePieces(cur, Tail(pieces))
    ELSE IF RlLen(cur) > WriterLimit THEN [ok |-> FALSE, bytes |-> cur]
    ELSE WritePieces(RlCat(cur, Head(pieces)), Tail(pieces))

(* `value.write_to(&mut writer)` on a writer holding `cur` *)
(* `io::Write::write` looks only at the buffer: refused - even for an empty slice - once the
   buffer is longer than WriterLimit, otherwise everything is appended whatever its size *)
RawWrite(cur, v) ==
    IF RlLen(cur) > WriterLimit THEN [ok |-> FALSE, bytes |-> cur, n |-> 0]
    ELSE [ok |-> TRUE, bytes |-> RlCat(cur, v), n |-> RlLen(v)]

WriteTo(cur, p) ==
    IF p.ty = "raw" THEN RawWrite(cur, p.v)
    ELSE IF Refused(p) THEN [ok |-> FALSE, bytes |-> cur, n |-> 0]
    ELSE LET r == WritePieces(cur, Pieces(p))
         IN  [ok |-> r.ok, bytes |-> r.bytes, n |-> RlLen(Encode(p))]

=============================================================================
