------------------------------- MODULE MC_Tlv -------------------------------
(***************************************************************************)
(* Bounded model of the TLV cursor: EVERY section over a small alphabet up *)
(* to a length bound, plus every truncation of well-formed sequences with  *)
(* value lengths at the interesting boundaries.  The cursor of Tlv.tla is  *)
(* run until it has answered None three times.  Invariants: the cursor     *)
(* yields exactly the declarative walk (C11), stays in range and is        *)
(* bounded by n/3 + 1 items (C03).                                         *)
(***************************************************************************)
EXTENDS Tlv, Json, TLC

CONSTANTS Alphabet, MaxLen, ValueLens

Item(t, n, fill) == << t >> \o U16Bytes(n) \o [i \in 1..n |-> fill]

WellFormedSeqs ==
    { Item(1, a, 170) : a \in ValueLens }
    \cup { Item(4, a, 5) \o Item(32, b, 6) : a \in ValueLens, b \in {0, 2} }

Truncations(s) == { SubSeq(s, 1, n) : n \in {0, 1, 2, 3, 4, Len(s) - 1, Len(s)} \cap 0..Len(s) }
                  \cup { s \o << 9 >>, s \o << 9, 0 >>, s \o << 9, 0, 1 >> }

Sections ==
    UNION { [1..n -> Alphabet] : n \in 0..MaxLen }
    \cup UNION { Truncations(s) : s \in WellFormedSeqs }

Nones == Cardinality({i \in 1..Len(yielded) : yielded[i].k = "none"})

MCInit == \E s \in Sections : section = s /\ offset = 0 /\ yielded = << >>
MCNext == Nones < 3 /\ Next
MCSpec == MCInit /\ [][MCNext]_vars

ItemCount == Cardinality({i \in 1..Len(yielded) : yielded[i].k # "none"}) <= Len(section) \div 3 + 1

Export ==
    (Nones = 3) =>
        PrintT("SCN" \o ToJson([fam |-> "tlv", tag |-> [g |-> "mc"], sec |-> RlOf(section),
                                kinds |-> [i \in 1..Len(yielded) |-> yielded[i].k]]))

=============================================================================
