------------------------------- MODULE MC_Tlv -------------------------------
(***************************************************************************)
(* Bounded model of the TLV cursor: EVERY section over a small alphabet up *)
(* to a length bound, plus every truncation of well-formed sequences with  *)
(* value lengths at the interesting boundaries.  The cursor of Tlv.tla is  *)
(* run until it has answered None three times.  Invariants: the cursor     *)
(* yields exactly the declarative walk (C11), stays in range and is        *)
(* bounded by n/3 + 1 items (C03).  In program mode next / nth / a        *)
(* consuming adaptor interleave on one cursor (OnTheWalk).                 *)
(***************************************************************************)
EXTENDS Tlv, Json, TLC

CONSTANTS Alphabet, MaxLen, ValueLens

Item(t, n, fill) == << t >> \o U16Bytes(n) \o [i \in 1..n |-> fill]

WellFormedSeqs ==
    { Item(1, a, 170) : a \in ValueLens }
    \cup { Item(4, a, 5) \o Item(32, b, 6) : a \in ValueLens, b \in {0, 2} }

Truncations(s) == { SubSeq(s, 1, n) : n \in {0, 1, 2, 3, 4, Len(s) - 1, Len(s)} \cap 0..Len(s) }
                  \cup { s \o << 9 >>, s \o << 9, 0 >>, s \o << 9, 0, 1 >> }

Sections ==
    UNION { [1..n -> Alphabet] : n \in 0..MaxLen }
    \cup UNION { Truncations(s) : s \in WellFormedSeqs }

(***************************************************************************)
(* Programs: on sections with several items of unequal sizes, every        *)
(* interleaving of next() and nth(n) on ONE cursor (a cursor that has      *)
(* already moved is where an overridden `nth` can go wrong), ended by a    *)
(* consuming adaptor.  `prog` records the operations for the export.       *)
(***************************************************************************)
CONSTANTS ProgLens, NthArgs

VARIABLES mode, prog

(* value lengths of the items of the program sections (a cfg file cannot hold tuples) *)
ProgLensQuick == { << 0, 1, 0, 2 >>, << 1, 0, 2, 0 >>, << 2, 1, 0 >>, << 0, 0, 3, 1, 0 >> }
NthArgsQuick == {1, 2, -1}
NthArgsThorough == {0, 1, 2, 3, -1}
ProgLensThorough == ProgLensQuick \cup { << 1, 2, 3, 4, 0, 1 >>, << 3, 0, 0, 1, 2 >>, << 0, 255, 1, 0 >>, << 256, 0, 1, 2 >> }

mcvars == << section, offset, yielded, mode, prog >>

RECURSIVE ItemsOf(_)
ItemsOf(lens) == IF lens = << >> THEN << >> ELSE Item(Len(lens), Head(lens), 16 + Len(lens)) \o ItemsOf(Tail(lens))

ProgSections ==
    LET full == { ItemsOf(l) : l \in ProgLens }
    IN  full \cup { SubSeq(s, 1, Len(s) - 1) : s \in full } \cup { s \o << 7, 0 >> : s \in full }

Nones == Cardinality({i \in 1..Len(yielded) : yielded[i].k = "none"})

MCInit ==
    /\ offset = 0 /\ yielded = << >> /\ prog = << >>
    /\ \/ mode = "walk" /\ section \in Sections
       \/ mode = "prog" /\ section \in ProgSections

MCNext ==
    \/ mode = "walk" /\ Nones < 3 /\ Next /\ UNCHANGED << mode, prog >>
    \/ /\ mode = "prog" /\ Nones < 1
       /\ \/ Next /\ prog' = Append(prog, [op |-> "next"])
          \/ \E n \in NthArgs : Nth(n) /\ prog' = Append(prog, [op |-> "nth", n |-> n])
          \/ Drain /\ prog' = Append(prog, [op |-> "rest", how |-> "collect"])
       /\ UNCHANGED mode

MCSpec == MCInit /\ [][MCNext]_mcvars

ItemCount == Cardinality({i \in 1..Len(yielded) : yielded[i].k # "none"}) <= Len(section) \div 3 + 1

(***************************************************************************)
(* Refinement: every step of the concrete cursor is a step of the integer  *)
(* abstraction TlvCursor (whose safety Apalache proves for sections of any *)
(* length), with the declared length read from the section as the witness  *)
(* of the abstraction's existential.                                       *)
(***************************************************************************)
RealCount == Cardinality({i \in 1..Len(yielded) : yielded[i].k # "none"})
HasErr == \E i \in 1..Len(yielded) : yielded[i].k = "err"
LastKind == IF yielded = << >> THEN "-" ELSE yielded[Len(yielded)].k

Abs == INSTANCE TlvCursor WITH Skewed <- FALSE, len <- Len(section), off <- offset, items <- RealCount,
                               errd <- HasErr, last <- LastKind

Witness == IF offset + 3 <= Len(section) THEN BE16(section[offset + 2], section[offset + 3]) ELSE 0

RefStep == Abs!AtEnd \/ Abs!Leftover \/ (Witness \in 0..65535 /\ Abs!ItemWith(Witness))

RefinesAbstract == [][mode = "walk" => RefStep]_mcvars

AbsSafe == Abs!Safe

WalkInvs == mode = "walk" => PrefixOfWalk /\ Tiling /\ Exhausts

Export ==
    /\ (mode = "walk" /\ Nones = 3) =>
        PrintT("SCN" \o ToJson([fam |-> "tlv", tag |-> [g |-> "mc"], sec |-> RlOf(section),
                                kinds |-> [i \in 1..Len(yielded) |-> yielded[i].k]]))
    /\ (mode = "prog" /\ Nones = 1) =>
        PrintT("SCN" \o ToJson([fam |-> "tlv", tag |-> [g |-> "mcprog"], sec |-> RlOf(section), progs |-> << prog >>,
                                kinds |-> [i \in 1..Len(yielded) |-> yielded[i].k]]))

=============================================================================
