SPECIFICATION WSpec
CONSTANTS
    MaxDepth = 1
    Level = 2
INVARIANTS InvC20 InvIntWidth InvTlvPair WExport
CHECK_DEADLOCK FALSE
