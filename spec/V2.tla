-------------------------------- MODULE V2 ---------------------------------
(***************************************************************************)
(* PROXY protocol version 2 (binary).                                      *)
(* Part I: the wire format as tables and a well-formedness predicate.      *)
(* Part II: the parser of src/v2/mod.rs in its gate order, and the views   *)
(* of src/v2/model.rs.                                                     *)
(***************************************************************************)
EXTENDS Bytes

Signature == << 13, 10, 13, 10, 0, 13, 10, 81, 85, 73, 84, 10 >>
FixedLen  == 16

Hi(b) == b \div 16
Lo(b) == b % 16

FamilyName(n) == CASE n = 0 -> "Unspecified" [] n = 1 -> "IPv4" [] n = 2 -> "IPv6" [] n = 3 -> "Unix" [] OTHER -> "?"
FamilyCode(name) == CASE name = "Unspecified" -> 0 [] name = "IPv4" -> 1 [] name = "IPv6" -> 2 [] name = "Unix" -> 3 [] OTHER -> 99
FamilySize(n) == CASE n = 0 -> 0 [] n = 1 -> 12 [] n = 2 -> 36 [] n = 3 -> 216 [] OTHER -> 0
CommandName(n) == CASE n = 0 -> "Local" [] n = 1 -> "Proxy" [] OTHER -> "?"
CommandCode(name) == IF name = "Local" THEN 0 ELSE 1
TransportName(n) == CASE n = 0 -> "Unspecified" [] n = 1 -> "Stream" [] n = 2 -> "Datagram" [] OTHER -> "?"
TransportCode(name) == CASE name = "Unspecified" -> 0 [] name = "Stream" -> 1 [] name = "Datagram" -> 2 [] OTHER -> 99

(* registered TLV type codes (PROXY protocol specification, section 2.2) *)
TypeCode(name) ==
    CASE name = "ALPN" -> 1 [] name = "Authority" -> 2 [] name = "CRC32C" -> 3 [] name = "NoOp" -> 4
      [] name = "UniqueId" -> 5 [] name = "SSL" -> 32 [] name = "SSLVersion" -> 33
      [] name = "SSLCommonName" -> 34 [] name = "SSLCipher" -> 35 [] name = "SSLSignatureAlgorithm" -> 36
      [] name = "SSLKeyAlgorithm" -> 37 [] name = "NetworkNamespace" -> 48 [] OTHER -> 999

TypeNames == {"ALPN", "Authority", "CRC32C", "NoOp", "UniqueId", "SSL", "SSLVersion", "SSLCommonName",
              "SSLCipher", "SSLSignatureAlgorithm", "SSLKeyAlgorithm", "NetworkNamespace"}

(***************************************************************************)
(* Part I                                                                  *)
(***************************************************************************)
Declared(input) == BE16(input[15], input[16])

WellFormed(input) ==
    /\ Len(input) >= FixedLen
    /\ SubSeq(input, 1, 12) = Signature
    /\ Hi(input[13]) = 2
    /\ Lo(input[13]) \in {0, 1}
    /\ Hi(input[14]) \in 0..3
    /\ Lo(input[14]) \in 0..2
    /\ Declared(input) >= FamilySize(Hi(input[14]))
    /\ Len(input) >= FixedLen + Declared(input)

HeaderLen(input) == FixedLen + Declared(input)

(* big-endian decoding of an address block of the given family *)
DecodeAddresses(fam, b) ==
    CASE fam = 1 -> [k |-> "IPv4", sa |-> SubSeq(b, 1, 4), da |-> SubSeq(b, 5, 8),
                     sp |-> BE16(b[9], b[10]), dp |-> BE16(b[11], b[12])]
      [] fam = 2 -> [k |-> "IPv6", sa |-> SubSeq(b, 1, 16), da |-> SubSeq(b, 17, 32),
                     sp |-> BE16(b[33], b[34]), dp |-> BE16(b[35], b[36])]
      [] fam = 3 -> [k |-> "Unix", src |-> SubSeq(b, 1, 108), dst |-> SubSeq(b, 109, 216)]
      [] OTHER   -> [k |-> "Unspecified"]

EncodeAddresses(a) ==
    CASE a.k = "IPv4" -> a.sa \o a.da \o U16Bytes(a.sp) \o U16Bytes(a.dp)
      [] a.k = "IPv6" -> a.sa \o a.da \o U16Bytes(a.sp) \o U16Bytes(a.dp)
      [] a.k = "Unix" -> a.src \o a.dst
      [] OTHER -> << >>

AddrFamily(a) == FamilyCode(a.k)

(* what a well-formed input denotes *)
Decode(input) ==
    LET fam == Hi(input[14])
    IN  [cmd  |-> CommandName(Lo(input[13])),
         tr   |-> TransportName(Lo(input[14])),
         fam  |-> FamilyName(fam),
         addr |-> DecodeAddresses(fam, SubSeq(input, 17, 16 + FamilySize(fam))),
         raw  |-> SubSeq(input, 1, HeaderLen(input))]

(***************************************************************************)
(* Part II -- the parser, gate by gate.  Result: [k |-> "ok", ...] or      *)
(* [k |-> "err", e |-> kind, a |-> n, b |-> m].                            *)
(***************************************************************************)
Err(kind, a, b) == [k |-> "err", e |-> kind, a |-> a, b |-> b]

Parse(input) ==
    LET n == Len(input)
    IN  IF n < 12
        THEN (IF StartsWith(Signature, input) THEN Err("Incomplete", n, 0) ELSE Err("Prefix", 0, 0))
        ELSE IF SubSeq(input, 1, 12) # Signature THEN Err("Prefix", 0, 0)
        ELSE IF n < FixedLen THEN Err("Incomplete", n, 0)
        ELSE IF Hi(input[13]) # 2 THEN Err("Version", Hi(input[13]) * 16, 0)
        ELSE IF Lo(input[13]) > 1 THEN Err("Command", Lo(input[13]), 0)
        ELSE IF Hi(input[14]) > 3 THEN Err("AddressFamily", Hi(input[14]) * 16, 0)
        ELSE IF Lo(input[14]) > 2 THEN Err("Protocol", Lo(input[14]), 0)
        ELSE LET len == Declared(input)
                 need == FamilySize(Hi(input[14]))
             IN  IF len < need THEN Err("InvalidAddresses", len, need)
                 ELSE IF n < FixedLen + len THEN Err("Partial", n - FixedLen, len)
                 ELSE LET d == Decode(input)
                      IN  [k |-> "ok", cmd |-> d.cmd, tr |-> d.tr, fam |-> d.fam, addr |-> d.addr, raw |-> d.raw]

IncompleteKinds == {"Incomplete", "Partial"}

(* ---- views of an accepted header whose bytes are `raw` ---- *)
ViewLength(raw) == Len(raw) - FixedLen
ViewAddressEnd(raw) ==
    LET fam == Hi(raw[14])
        length == ViewLength(raw)
        ab == IF fam = 0 THEN length ELSE FamilySize(fam)
    IN  FixedLen + Min2(ab, length)
ViewAddressBytes(raw) == SubSeq(raw, FixedLen + 1, ViewAddressEnd(raw))
ViewTlvBytes(raw) == SubSeq(raw, ViewAddressEnd(raw) + 1, Len(raw))

=============================================================================
