---------------------------- MODULE TraceStream ----------------------------
(***************************************************************************)
(* Trace validation for the `stream` family: every line of the trace       *)
(* recorded from the real crate is one action of Stream.tla (Reset / Recv  *)
(* with the logged chunk and the logged verdicts / Reparse).  In every     *)
(* consumed state the property predicates of Stream.tla are evaluated on   *)
(* what the crate returned; failing clauses are printed (one "EV" line     *)
(* per event) instead of stopping, so that one run classifies the whole    *)
(* trace.  Acceptance: every line consumed (POSTCONDITION).                *)
(***************************************************************************)
EXTENDS StreamModel, Json, IOUtils

CONSTANT Props          \* the property ids to evaluate, e.g. {"C01", "C04"}

Rec == ndJsonDeserialize(IOEnv.TRACE)

VARIABLES l, tag

tvars == << buf, verdict, hist, l, tag >>

Ev == Rec[l]

IsEvent(name) == l <= Len(Rec) /\ Ev.op = name /\ l' = l + 1

Sel(p, S) == IF p \in Props THEN S ELSE {}
Flag(p, c) == IF p \in Props /\ c THEN {p} ELSE {}

Emit(fails, nts) ==
    IF fails = {} /\ nts = {} THEN TRUE
    ELSE PrintT(ToJson([ev |-> l, fails |-> fails, nt |-> nts]))

C12(b, v) == IF "C12" \in Props THEN C12_Eval(tag, b, v) ELSE [f |-> {}, nt |-> FALSE]

(***************************************************************************)
(* Binding checks: the harness decides "not applicable" for the text entry *)
(* points with the standard library's UTF-8 validator; the specification's *)
(* own definition must agree, or the tooling (not the crate) is wrong.     *)
(***************************************************************************)
BindFails(b, v) ==
    (IF IsNa(v["v1s"]) = Utf8Valid(b) THEN {<< "BIND", "utf8-applicability", "v1s" >>} ELSE {})

(***************************************************************************)
(* Actions                                                                 *)
(***************************************************************************)
TraceInit == Init /\ l = 1 /\ tag = [g |-> "none"]

TraceReset ==
    /\ IsEvent("Reset")
    /\ Reset
    /\ tag' = Ev.tag

(***************************************************************************)
(* A `Huge` event is a Recv whose chunk is 4 GiB or more of zero bytes,    *)
(* parsed in place by the byte entry points.  The specification is given   *)
(* the first m of those zeros; that stands for all of them only if its own *)
(* verdict on the shorter buffer is already final for both versions (no    *)
(* later byte can change a final verdict: C04, C17, C18) - checked as a    *)
(* binding condition.                                                      *)
(***************************************************************************)
HugeBindFails(b) ==
    LET mv == ModelVerdict(b)
    IN  IF mv["v2"].inc \/ mv["v1b"].inc THEN {<< "BIND", "huge-chunk-too-short-to-stand-for-the-rest", "huge" >>} ELSE {}

(* the predicates of every property on buffer b with verdicts v, h = history before b *)
Observe(b, h, v, chunkLen, huge, extra, extraNt) ==
    LET c12 == C12(b, v)
    IN  Emit(extra \cup (IF huge THEN HugeBindFails(b) ELSE BindFails(b, v))
            \cup Sel("C01", C01_Fails(b, v))
            \cup Sel("C02", C02_Fails(b, v))
            \cup Sel("C03", C03_Fails(b, v))
            \cup Sel("C04", C04_Fails(b, v, h))
            \cup Sel("C05", C05_Fails(b, v, h))
            \cup Sel("C06", C06_Fails(b, v))
            \cup Sel("C08", C08_StreamFails(b, v))
            \cup Sel("C11", C11_Fails(b, v))
            \cup c12.f
            \cup Sel("C14", C14_Fails(b, v))
            \cup Sel("C15", C15_Fails(b, v))
            \cup Sel("C16", C16_Fails(b, v))
            \cup Sel("C17", C17_Fails(b, v, h, chunkLen))
            \cup Sel("C18", C18_Fails(b, v))
            \cup Sel("DRIFT", IF huge THEN {} ELSE DriftFails(b, v)),
            Flag("C01", C01_Nontrivial(b, v))
            \cup Flag("C02", C02_Nontrivial(b, v))
            \cup Flag("C03", Len(b) > 0)
            \cup Flag("C04", C04_Nontrivial(b, v, h))
            \cup Flag("C05", C05_Nontrivial(b, v, h))
            \cup Flag("C06", C06_Nontrivial(b, v))
            \cup Flag("C08", C15_Nontrivial(b, v))
            \cup Flag("C11", C14_Nontrivial(b, v))
            \cup Flag("C12", c12.nt)
            \cup Flag("C14", C14_Nontrivial(b, v))
            \cup Flag("C15", C15_Nontrivial(b, v))
            \cup Flag("C16", C16_Nontrivial(b, v))
            \cup Flag("C17", C17_Nontrivial(b, v))
            \cup Flag("C18", C18_Nontrivial(b, v))
            \cup extraNt)

RecvBody(chunk, v, huge) ==
    /\ Recv(chunk, v)
    /\ Observe(buf \o chunk, hist, v, Len(chunk), huge, {}, {})

TraceRecv ==
    /\ IsEvent("Recv")
    /\ RecvBody(Flat(Ev.c), Ev.obs, FALSE)
    /\ UNCHANGED tag

TraceHuge ==
    /\ IsEvent("Huge")
    /\ RecvBody(Flat(Ev.c), Ev.obs, TRUE)
    /\ UNCHANGED tag

(* the receiver removes the accepted header (n = what its length accessor returned) and parses
   what is left; the remainder starts a new epoch *)
TraceConsume ==
    /\ IsEvent("Consume")
    /\ LET rest == SubSeq(buf, Ev.n + 1, Len(buf))
       IN  /\ Consume(Ev.n, Ev.obs)
           /\ Observe(rest, Hist0, Ev.obs, 0, FALSE,
                      Sel("C04", C04_ConsumeFails(buf, Ev.n)), Flag("C04", TRUE))
    /\ UNCHANGED tag

(***************************************************************************)
(* The same bytes at another memory position (the receiver's buffer does   *)
(* not start at the beginning of an allocation): what the crate reports    *)
(* must not depend on it, so the harness logs such an observation only     *)
(* where it differs from the one at the allocation's start.  It is judged  *)
(* like the Recv / Consume event that follows it (same buffer, same        *)
(* history) and leaves the state alone.                                    *)
(***************************************************************************)
TraceMoved ==
    /\ IsEvent("Moved")
    /\ LET chunk == Flat(Ev.c)
       IN  Observe(buf \o chunk, hist, Ev.obs, Len(chunk), FALSE, {}, {})
    /\ UNCHANGED << buf, verdict, hist, tag >>

TraceMovedRest ==
    /\ IsEvent("MovedRest")
    /\ LET rest == SubSeq(buf, Ev.n + 1, Len(buf))
       IN  Observe(rest, Hist0, Ev.obs, 0, FALSE, {}, {})
    /\ UNCHANGED << buf, verdict, hist, tag >>

TraceReparse ==
    /\ IsEvent("Reparse")
    /\ Emit(Sel("C04", C04_ReparseFails(Ev.ep, Flat(Ev.input), Ev.r, hist))
            \cup Sel("C03", IF Ev.r.k = "panic" THEN {<< "C03", "panic", Ev.ep >>} ELSE {}),
            Flag("C04", TRUE))
    /\ UNCHANGED << buf, verdict, hist, tag >>

TraceNext == TraceReset \/ TraceRecv \/ TraceMoved \/ TraceHuge \/ TraceConsume \/ TraceMovedRest \/ TraceReparse

TraceSpec == TraceInit /\ [][TraceNext]_tvars

(* every line of the trace was consumed *)
TraceAccepted ==
    LET d == TLCGet("stats").diameter
    IN  IF d - 1 = Len(Rec) THEN TRUE
        ELSE Print(<< "TRACE-NOT-CONSUMED", d - 1, Len(Rec) >>, FALSE)

=============================================================================
