---------------------------- MODULE TraceStream ----------------------------
(***************************************************************************)
(* Trace validation for the `stream` family: every line of the trace       *)
(* recorded from the real crate is one action of Stream.tla (Reset / Recv  *)
(* with the logged chunk and the logged verdicts / Reparse).  In every     *)
(* consumed state the property predicates of Stream.tla are evaluated on   *)
(* what the crate returned; failing clauses are printed (one "EV" line     *)
(* per event) instead of stopping, so that one run classifies the whole    *)
(* trace.  Acceptance: every line consumed (POSTCONDITION).                *)
(***************************************************************************)
EXTENDS Stream, Json, IOUtils

CONSTANT Props          \* the property ids to evaluate, e.g. {"C01", "C04"}

Rec == ndJsonDeserialize(IOEnv.TRACE)

VARIABLES l, tag

tvars == << buf, verdict, hist, l, tag >>

Ev == Rec[l]

IsEvent(name) == l <= Len(Rec) /\ Ev.op = name /\ l' = l + 1

Sel(p, S) == IF p \in Props THEN S ELSE {}
Flag(p, c) == IF p \in Props /\ c THEN {p} ELSE {}

Emit(fails, nts) ==
    IF fails = {} /\ nts = {} THEN TRUE
    ELSE PrintT(ToJson([ev |-> l, fails |-> fails, nt |-> nts]))

(***************************************************************************)
(* C12 on tagged sessions: the tag names a base line / header, the element *)
(* replaced and the replacement.  The specification re-derives the         *)
(* corrupted input and whether it qualifies; nothing is trusted.           *)
(***************************************************************************)
C12v1(b, v) ==
    LET base == tag.base
        elem == tag.elem
        repl == tag.repl
        qualifies == V1!AcceptedLen(base) = Len(base) /\ Len(base) > 0 /\ V1!InvalidFor(base, elem, repl)
        corrupted == V1!Corrupted(base, elem, repl)
        kind == V1!KindFor(elem)
        check(e) ==
            LET o == v[e]
            IN  IF ~Applicable(v, e) THEN {}
                ELSE IF o.k = "panic" THEN {}
                ELSE IF IsOk(o) THEN {<< "C12", "corrupted-line-accepted", e >>}
                ELSE IF o.inc THEN {<< "C12", "not-terminal", e >>}
                ELSE IF o.e # kind THEN {<< "C12", "wrong-kind", e >>}
                ELSE {}
        autoCheck ==
            LET o == v["auto"]
            IN  IF o.k = "panic" THEN {}
                ELSE IF IsOk(o) THEN {<< "C12", "corrupted-line-accepted", "auto" >>}
                ELSE IF o.inc THEN {<< "C12", "not-terminal", "auto" >>}
                ELSE IF o.tag # "V1" \/ o.r.e # kind THEN {<< "C12", "wrong-kind", "auto" >>}
                ELSE {}
    IN  IF ~qualifies \/ Len(b) # Len(corrupted) THEN [f |-> {}, nt |-> FALSE]
        ELSE IF b # corrupted THEN [f |-> {<< "BIND", "c12-input-is-not-the-corruption", "v1b" >>}, nt |-> FALSE]
        ELSE [f |-> check("v1b") \cup (IF elem = "utf8" THEN {} ELSE check("v1s") \cup check("v1fh") \cup check("v1fa")) \cup autoCheck,
              nt |-> TRUE]

C12v2(b, v) ==
    LET base == Flat(tag.base)
        elem == tag.elem
        val == tag.val
        idx == tag.idx
        wf == V2!WellFormed(base) /\ Len(base) = V2!HeaderLen(base)
        fam == V2!Hi(base[14])
        invalid ==
            CASE elem = "sig" -> idx \in 1..12 /\ val \in 0..255 /\ val # base[idx]
              [] elem = "version" -> val \in 0..15 /\ val # 2
              [] elem = "command" -> val \in 2..15
              [] elem = "family" -> val \in 4..15
              [] elem = "transport" -> val \in 3..15
              [] elem = "length" -> val < V2!FamilySize(fam)
              [] OTHER -> FALSE
        corrupted ==
            CASE elem = "sig" -> [base EXCEPT ![idx] = val]
              [] elem = "version" -> [base EXCEPT ![13] = val * 16 + V2!Lo(base[13])]
              [] elem = "command" -> [base EXCEPT ![13] = V2!Hi(base[13]) * 16 + val]
              [] elem = "family" -> [base EXCEPT ![14] = val * 16 + V2!Lo(base[14])]
              [] elem = "transport" -> [base EXCEPT ![14] = V2!Hi(base[14]) * 16 + val]
              [] OTHER -> [base EXCEPT ![15] = val \div 256, ![16] = val % 256]
        expected ==
            CASE elem = "sig" -> [e |-> "Prefix", a |-> 0, b |-> 0]
              [] elem = "version" -> [e |-> "Version", a |-> val * 16, b |-> 0]
              [] elem = "command" -> [e |-> "Command", a |-> val, b |-> 0]
              [] elem = "family" -> [e |-> "AddressFamily", a |-> val * 16, b |-> 0]
              [] elem = "transport" -> [e |-> "Protocol", a |-> val, b |-> 0]
              [] OTHER -> [e |-> "InvalidAddresses", a |-> val, b |-> V2!FamilySize(fam)]
        o == v["v2"]
        two == IF o.k = "panic" THEN {}
               ELSE IF IsOk(o) THEN {<< "C12", "corrupted-header-accepted", "v2" >>}
               ELSE IF o.inc THEN {<< "C12", "not-terminal", "v2" >>}
               ELSE IF o.e # expected.e \/ o.a # expected.a \/ o.b # expected.b THEN {<< "C12", "wrong-kind-or-payload", "v2" >>}
               ELSE {}
        a == v["auto"]
        auto == IF a.k = "panic" THEN {}
                ELSE IF IsOk(a) THEN {<< "C12", "corrupted-header-accepted", "auto" >>}
                ELSE IF a.inc THEN {<< "C12", "not-terminal", "auto" >>}
                ELSE {}
    IN  IF ~(wf /\ invalid) \/ Len(b) # Len(base) THEN [f |-> {}, nt |-> FALSE]
        ELSE IF b # corrupted THEN [f |-> {<< "BIND", "c12-input-is-not-the-corruption", "v2" >>}, nt |-> FALSE]
        ELSE [f |-> two \cup auto, nt |-> TRUE]

C12(b, v) ==
    IF "C12" \notin Props THEN [f |-> {}, nt |-> FALSE]
    ELSE IF tag.g = "c12v1" THEN C12v1(b, v)
    ELSE IF tag.g = "c12v2" THEN C12v2(b, v)
    ELSE [f |-> {}, nt |-> FALSE]

(***************************************************************************)
(* Binding checks: the harness decides "not applicable" for the text entry *)
(* points with the standard library's UTF-8 validator; the specification's *)
(* own definition must agree, or the tooling (not the crate) is wrong.     *)
(***************************************************************************)
BindFails(b, v) ==
    (IF IsNa(v["v1s"]) = Utf8Valid(b) THEN {<< "BIND", "utf8-applicability", "v1s" >>} ELSE {})

(***************************************************************************)
(* Actions                                                                 *)
(***************************************************************************)
TraceInit == Init /\ l = 1 /\ tag = [g |-> "none"]

TraceReset ==
    /\ IsEvent("Reset")
    /\ Reset
    /\ tag' = Ev.tag

TraceRecv ==
    /\ IsEvent("Recv")
    /\ LET chunk == Flat(Ev.c)
           b == buf \o chunk
           v == Ev.obs
           c12 == C12(b, v)
       IN  /\ Recv(chunk, v)
           /\ Emit(BindFails(b, v)
                   \cup Sel("C01", C01_Fails(b, v))
                   \cup Sel("C02", C02_Fails(b, v))
                   \cup Sel("C03", C03_Fails(b, v))
                   \cup Sel("C04", C04_Fails(b, v, hist))
                   \cup Sel("C05", C05_Fails(b, v, hist))
                   \cup Sel("C06", C06_Fails(b, v))
                   \cup Sel("C11", C11_Fails(b, v))
                   \cup c12.f
                   \cup Sel("C14", C14_Fails(b, v))
                   \cup Sel("C15", C15_Fails(b, v))
                   \cup Sel("C16", C16_Fails(b, v))
                   \cup Sel("C17", C17_Fails(b, v, hist, Len(chunk)))
                   \cup Sel("C18", C18_Fails(b, v)),
                   Flag("C01", C01_Nontrivial(b, v))
                   \cup Flag("C02", C02_Nontrivial(b, v))
                   \cup Flag("C03", Len(b) > 0)
                   \cup Flag("C04", C04_Nontrivial(b, v, hist))
                   \cup Flag("C05", C05_Nontrivial(b, v, hist))
                   \cup Flag("C06", C06_Nontrivial(b, v))
                   \cup Flag("C11", C14_Nontrivial(b, v))
                   \cup Flag("C12", c12.nt)
                   \cup Flag("C14", C14_Nontrivial(b, v))
                   \cup Flag("C15", C15_Nontrivial(b, v))
                   \cup Flag("C16", C16_Nontrivial(b, v))
                   \cup Flag("C17", C17_Nontrivial(b, v))
                   \cup Flag("C18", C18_Nontrivial(b, v)))
    /\ UNCHANGED tag

TraceReparse ==
    /\ IsEvent("Reparse")
    /\ Emit(Sel("C04", C04_ReparseFails(Ev.ep, Flat(Ev.input), Ev.r, hist))
            \cup Sel("C03", IF Ev.r.k = "panic" THEN {<< "C03", "panic", Ev.ep >>} ELSE {}),
            Flag("C04", TRUE))
    /\ UNCHANGED << buf, verdict, hist, tag >>

TraceNext == TraceReset \/ TraceRecv \/ TraceReparse

TraceSpec == TraceInit /\ [][TraceNext]_tvars

(* every line of the trace was consumed *)
TraceAccepted ==
    LET d == TLCGet("stats").diameter
    IN  IF d - 1 = Len(Rec) THEN TRUE
        ELSE Print(<< "TRACE-NOT-CONSUMED", d - 1, Len(Rec) >>, FALSE)

=============================================================================
