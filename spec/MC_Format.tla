----------------------------- MODULE MC_Format ------------------------------
(***************************************************************************)
(* Bounded model for C08: every IPv6 value whose groups come from          *)
(* {0, 1, 0xffff} -- all 3^8 = 6561 zero-run shapes `::` compression can   *)
(* produce --, the IPv4-mapped shapes and boundary IPv4 / port values.     *)
(* For each value the canonical text (RFC 5952, what Display prints) must  *)
(* be a well-formed line of at most 107 bytes that denotes the same value, *)
(* and the implementation-shaped parser must accept it with that value.    *)
(* Every value is exported as a `format` scenario.                         *)
(***************************************************************************)
EXTENDS Bytes, Json, TLC

CONSTANT Level

V1 == INSTANCE V1

VARIABLE val

GroupVals == {0, 1, 65535}
Other6 == << 8193, 3512, 0, 0, 0, 0, 0, 153 >>

Values6 ==
    IF Level = 1
    THEN { [proto |-> "TCP6", sa |-> g, da |-> Other6, sp |-> 1, dp |-> 65535] :
           g \in { h \in [1..8 -> GroupVals] : h[2] = h[3] /\ h[5] = h[6] } }
    ELSE { [proto |-> "TCP6", sa |-> g, da |-> Other6, sp |-> 1, dp |-> 65535] : g \in [1..8 -> GroupVals] }
         \cup { [proto |-> "TCP6", sa |-> Other6, da |-> g, sp |-> 0, dp |-> 443] : g \in { h \in [1..8 -> GroupVals] : h[1] = 0 } }

Mapped == { [proto |-> "TCP6", sa |-> << 0, 0, 0, 0, 0, x, 258, 772 >>, da |-> << 65535, 65535, 65535, 65535, 65535, 65535, 65535, 65535 >>, sp |-> 65535, dp |-> 65535] :
            x \in {0, 65535} }

Values4 == { [proto |-> "TCP4", sa |-> a, da |-> d, sp |-> p, dp |-> q] :
             a \in { << 0, 0, 0, 0 >>, << 255, 255, 255, 255 >>, << 1, 20, 100, 200 >> },
             d \in { << 127, 0, 0, 1 >>, << 255, 255, 255, 255 >> }, p \in {0, 9, 65535}, q \in {80, 65535} }

Unknown == [proto |-> "UNKNOWN", sa |-> << >>, da |-> << >>, sp |-> 0, dp |-> 0]

MCInit == val \in Values6 \cup Mapped \cup Values4 \cup {Unknown}
MCNext == UNCHANGED val
MCSpec == MCInit /\ [][MCNext]_val

Same(d, a) == d.proto = a.proto /\ d.sa = a.sa /\ d.da = a.da /\ d.sp = a.sp /\ d.dp = a.dp

InvC08 ==
    LET t == V1!FormatAddresses(val)
        m == V1!ParseBytesM(t)
        s == V1!ParseStrM(t)
    IN  /\ V1!WellFormedLine(t)
        /\ Len(t) <= 107
        /\ Same(V1!Decode(t), val)
        /\ m.k = "ok" /\ Same(m, val) /\ m.hdr = t
        /\ s.k = "ok" /\ Same(s, val) /\ s.hdr = t

Export == PrintT("SCN" \o ToJson([fam |-> "format", a |-> val, len |-> Len(V1!FormatAddresses(val))]))

=============================================================================
