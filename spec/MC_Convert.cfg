SPECIFICATION MCSpec
INVARIANTS InvRoles Export
CHECK_DEADLOCK FALSE
