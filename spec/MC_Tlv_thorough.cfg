SPECIFICATION MCSpec
CONSTANTS
    Alphabet = {0, 1, 2, 3, 255}
    MaxLen = 7
    ValueLens = {0, 1, 2, 255, 256, 1000}
    ProgLens <- ProgLensThorough
    NthArgs <- NthArgsThorough
PROPERTY RefinesAbstract
INVARIANTS AbsSafe InRange WalkInvs StopsForGood OnTheWalk Bounded ItemCount Export
CHECK_DEADLOCK FALSE
