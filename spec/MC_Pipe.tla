------------------------------- MODULE MC_Pipe -------------------------------
(***************************************************************************)
(* Bounded model of a consuming receiver on a pipelined connection: two or *)
(* three headers (text and binary mixed) back to back, then application    *)
(* bytes, delivered in reads of a fixed size per behaviour (1, 2, 7 or 16   *)
(* bytes, or everything at once).                                          *)
(* Whenever the auto-detecting verdict on its buffer is a success the      *)
(* receiver removes as many bytes as the specification says the header     *)
(* occupies (HeaderLenSpec) and goes on (Stream!Consume).                  *)
(*                                                                         *)
(* Invariants (framing): nothing is lost or invented - the headers taken   *)
(* off, followed by the buffer, are exactly the bytes delivered so far;    *)
(* the headers taken off are, in order, the ones that were sent; when      *)
(* everything was delivered and consumed the buffer holds the application  *)
(* bytes.  C04 / C05 / C06 hold in every state of every epoch.             *)
(* Each behaviour is exported with its read boundaries and replayed into   *)
(* the crate as a `pipe` session.                                          *)
(***************************************************************************)
EXTENDS StreamModel, Ascii, Json

VARIABLES full, sent, taken, pos, step, hprev

pvars == << buf, verdict, hist, full, sent, taken, pos, step, hprev >>

Line1 == B("PROXY TCP4 1.2.3.4 5.6.7.8 9 10\r\n")
Line2 == B("PROXY UNKNOWN\r\n")
Line3 == B("PROXY UNKNOWN PROXY\r\n")
Bin1  == V2!Signature \o << 33, 17, 0, 12, 1, 2, 3, 4, 5, 6, 7, 8, 0, 9, 1, 0 >>
Bin2  == V2!Signature \o << 32, 0, 0, 0 >>
Bin3  == V2!Signature \o << 33, 17, 0, 15, 1, 2, 3, 4, 5, 6, 7, 8, 0, 9, 1, 0, 4, 0, 0 >>

Headers == { Line1, Line2, Line3, Bin1, Bin2, Bin3 }
Tails == { << >>, B("GET /"), B("PROXY"), << 13, 10, 13, 10, 0 >>, << 13 >> }
Steps == { 1, 2, 7, 16, 1000 }

RECURSIVE Cat(_)
Cat(ss) == IF ss = << >> THEN << >> ELSE Head(ss) \o Cat(Tail(ss))

MCInit ==
    \E h1 \in Headers, h2 \in Headers, t \in Tails :
        /\ sent = << h1, h2 >>
        /\ full = h1 \o h2 \o t
        /\ taken = << >> /\ pos = 0 /\ step \in Steps
        /\ buf = << >>
        /\ verdict = ModelVerdict(<< >>)
        /\ hprev = Hist0
        /\ hist = NextHist(Hist0, << >>, ModelVerdict(<< >>))

(* a read: only when there is nothing to take off the buffer *)
MCRecv ==
    /\ ~IsOk(verdict["auto"])
    /\ pos < Len(full)
    /\ LET k == IF pos + step > Len(full) THEN Len(full) - pos ELSE step
           chunk == SubSeq(full, pos + 1, pos + k)
       IN  /\ Recv(chunk, ModelVerdict(buf \o chunk))
           /\ pos' = pos + k
    /\ hprev' = hist
    /\ UNCHANGED << full, sent, taken, step >>

MCConsume ==
    /\ IsOk(verdict["auto"])
    /\ LET n == HeaderLenSpec(buf)
           rest == SubSeq(buf, n + 1, Len(buf))
       IN  /\ Consume(n, ModelVerdict(rest))
           /\ taken' = Append(taken, SubSeq(buf, 1, n))
    /\ hprev' = Hist0
    /\ UNCHANGED << full, sent, pos, step >>

MCNext == MCRecv \/ MCConsume
MCSpec == MCInit /\ [][MCNext]_pvars

Conservation == Cat(taken) \o buf = SubSeq(full, 1, pos)
InOrder == Len(taken) <= Len(sent) /\ \A i \in 1..Len(taken) : taken[i] = sent[i]
(* the verdict says success exactly when a header of the specified length is at the front *)
AcceptIffHeader == IsOk(verdict["auto"]) <=> (HeaderLenSpec(buf) > 0)
Done == pos = Len(full) /\ ~IsOk(verdict["auto"])
AllTaken == Done => taken = sent
InvC04 == C04_Fails(buf, verdict, hprev) = {}
InvC05 == C05_Fails(buf, verdict, hprev) = {}
InvC06 == C06_Fails(buf, verdict) = {}

Export ==
    Done =>
        PrintT("SCN" \o ToJson([fam |-> "stream", tag |-> [g |-> "pipe"], rl |-> RlOf(full), cuts |-> [i \in 1..(Len(full) \div step) |-> i * step], consume |-> TRUE,
                                ntaken |-> Len(taken), left |-> Len(buf)]))

=============================================================================
