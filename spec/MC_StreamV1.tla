---------------------------- MODULE MC_StreamV1 -----------------------------
(***************************************************************************)
(* Bounded model of the streaming receiver on text headers.                *)
(*                                                                         *)
(* A behaviour: choose a well-formed base line, replace at most MaxSubst   *)
(* of its elements (keyword, separators, protocol, addresses, ports, CR,   *)
(* LF) by an alternative from that element's list, append a trailer, and   *)
(* deliver the result ONE BYTE PER READ, so every prefix is a state.  The  *)
(* verdicts are those of the implementation-shaped specification           *)
(* (StreamModel!ModelVerdict); the invariants are the property predicates  *)
(* of Stream.tla, i.e. TLC checks that the specified algorithm satisfies   *)
(* C01 C03 C04 C05 C06 C12 C15 C16 C18 on every reachable state.  Each     *)
(* completed behaviour is printed as a scenario for the harness.           *)
(***************************************************************************)
EXTENDS StreamModel, Ascii, Json

CONSTANTS MaxSubst,     \* 0, 1 or 2 substitutions per line
          Level         \* 1 = small alphabets (quick), 2 = full alphabets (thorough)

VARIABLES full,         \* the whole stream of this behaviour
          tag,          \* how it was made (for C12 and for the exported scenario)
          hprev         \* hist before the current state (the predicates' `h`)

mvars == << buf, verdict, hist, full, tag, hprev >>

EAcute == << 195, 169 >>
Euro   == << 226, 130, 172 >>

(***************************************************************************)
(* Base lines, as sequences of elements [k |-> kind, t |-> bytes].         *)
(***************************************************************************)
El(k, t) == [k |-> k, t |-> t]

TcpLine(proto, src, dst, sport, dport) ==
    << El("kw", B("PROXY")), El("sp", B(" ")), El("proto", B(proto)), El("sp", B(" ")), El("src", B(src)), El("sp", B(" ")),
       El("dst", B(dst)), El("sp", B(" ")), El("sport", B(sport)), El("sp", B(" ")), El("dport", B(dport)),
       El("cr", << 13 >>), El("lf", << 10 >>) >>

UnknownLine(text) ==
    << El("kw", B("PROXY")), El("sp", B(" ")), El("proto", B("UNKNOWN")), El("text", text), El("cr", << 13 >>), El("lf", << 10 >>) >>

Pad(n) == [i \in 1..n |-> IF i = 1 THEN 32 ELSE 97 + (i % 3)]

Bases ==
    IF Level = 1
    THEN << TcpLine("TCP4", "1.2.3.4", "5.6.7.8", "0", "65535"),
            TcpLine("TCP6", "::1", "::ffff:1.2.3.4", "443", "80"),
            UnknownLine(<< >>),
            UnknownLine(B(" a b c d e f")),
            UnknownLine(B("  two  spaces ")),
            UnknownLine(B(" PROXY")),    \* the protocol's own vocabulary as free text
            UnknownLine(Pad(92)) >>      \* 107 bytes: the limit
    ELSE << TcpLine("TCP4", "1.2.3.4", "5.6.7.8", "0", "65535"),
            TcpLine("TCP4", "255.255.255.255", "0.0.0.0", "443", "80"),
            TcpLine("TCP6", "::1", "::ffff:1.2.3.4", "443", "80"),
            TcpLine("TCP6", "::", "1:2:3:4:5:6:7:8", "1", "2"),
            TcpLine("TCP6", "ffff:ffff:ffff:ffff:ffff:ffff:ffff:ffff", "ffff:ffff:ffff:ffff:ffff:ffff:ffff:fffe", "65535", "65534"),
            UnknownLine(<< >>),
            UnknownLine(B(" ")),
            UnknownLine(B(" a b c d e f")),
            UnknownLine(B(" \n b")),
            UnknownLine(B("  two  spaces ")),
            UnknownLine(B(" h") \o EAcute \o B(" ") \o Euro),
            UnknownLine(B(" PROXY")),
            UnknownLine(B(" UNKNOWN UNKNOWN")),
            UnknownLine(B(" x PROXY TCP4")),
            UnknownLine(Pad(90)),       \* 105 bytes
            UnknownLine(Pad(92)),       \* 107 bytes: the limit
            UnknownLine(Pad(93)) >>     \* 108 bytes: one too many (not well formed)

(***************************************************************************)
(* Alternatives per element kind.                                          *)
(***************************************************************************)
Alternatives(kind, line) ==
    LET six == line[3].t = B("TCP6")
    IN  CASE kind = "kw"    -> IF Level = 1 THEN { B("proxy"), B("PROX"), << >> }
                               ELSE { B("proxy"), B("PROX"), B("PROXYY"), << >>, B("P"), B("PROXZ") }
          [] kind = "sp"    -> IF Level = 1 THEN { B("  "), << >>, << 13 >> } ELSE { B("  "), B("\t"), << >>, << 13 >>, << 10 >>, << 13, 10 >> }
          [] kind = "proto" -> IF Level = 1 THEN { B("tcp4"), B("TCP"), B("UNKNOWN"), << >> }
                               ELSE { B("tcp4"), B("TCP"), B("TCP5"), B("TCP44"), << >>, B("UNKNOWN"), B("UNKNOW"), B("U"),
                                      IF six THEN B("TCP4") ELSE B("TCP6") }
          [] kind \in {"src", "dst"} ->
                IF six THEN (IF Level = 1 THEN { B("1.2.3.4"), B("1::2::3"), << >> }
                             ELSE { B("1.2.3.4"), B("12345::"), B("1::2::3"), B(":::"), << >>, B("1:2:3:4:5:6:7"), B("::01.2.3.4"), B("::g") })
                ELSE (IF Level = 1 THEN { B("256.1.1.1"), B("::1"), << >> }
                      ELSE { B("256.1.1.1"), B("01.2.3.4"), B("::1"), B("1.2.3"), << >>, B("1.2.3.4.5"), B("1..2.3") })
          [] kind \in {"sport", "dport"} ->
                IF Level = 1 THEN { B("65536"), B("+1"), B("01"), << >> }
                ELSE { B("65536"), B("+1"), B("-1"), B("01"), B("00"), << >>, B("1a"), B("99999999999"), B("+"), B("0x1") }
          [] kind = "cr"    -> IF Level = 1 THEN { << >>, B(" ") } ELSE { << >>, B(" "), << 10 >>, << 13, 13 >> }
          [] kind = "lf"    -> IF Level = 1 THEN { << >>, B("X"), EAcute }
                               ELSE { << >>, B("X"), << 13 >>, B(" "), EAcute, Euro, << 255 >>, << 0 >> }
          [] kind = "text"  -> IF Level = 1 THEN { B(" x") \o << 255 >>, Pad(93) }
                               ELSE { B(" x") \o << 255 >>, B(" x") \o << 226, 130 >>, Pad(93), Pad(120), B("X"), B(" \r") }
          [] OTHER -> {}

Trailers ==
    IF Level = 1 THEN { << >>, B("5X"), << 255, 22, 3 >> }
    ELSE { << >>, B("X"), B("5"), << 13, 10 >>, << 10 >>, << 0 >>, B(" \n"), B("PROXY UNKNOWN\r\n"), << 255, 22, 3 >>, << 226, 130 >>,
           V2!Signature \o << 33, 17, 0, 12, 1, 2, 3, 4, 5, 6, 7, 8, 0, 9, 1, 0 >> }

(***************************************************************************)
(* Streams                                                                 *)
(***************************************************************************)
LineBytes(line) == Concat([i \in 1..Len(line) |-> line[i].t])

Subst(line, i, alt) == [line EXCEPT ![i] = El(line[i].k, alt)]

(* the element name C12 uses, for substitutions it speaks about *)
C12Elem(kind) == IF kind \in {"kw", "proto", "src", "dst", "sport", "dport", "lf"} THEN kind
                 ELSE IF kind = "text" THEN "text" ELSE "none"

TagFor(line, i, alt) ==
    LET kind == line[i].k
        base == LineBytes(line)
        elem == IF kind = "text" THEN (IF Utf8Valid(alt) THEN "long" ELSE "utf8") ELSE kind
    IN  IF C12Elem(kind) = "none" THEN [g |-> "mc", base |-> base, elem |-> kind, repl |-> alt]
        ELSE [g |-> "c12v1", base |-> base, elem |-> elem, repl |-> alt]

Streams ==
    LET b0 == { [bytes |-> LineBytes(Bases[i]), tag |-> [g |-> "mc", base |-> LineBytes(Bases[i]), elem |-> "none", repl |-> << >>]] :
                i \in 1..Len(Bases) }
        b1 == IF MaxSubst < 1 THEN {}
              ELSE UNION { UNION { { [bytes |-> LineBytes(Subst(Bases[i], j, alt)), tag |-> TagFor(Bases[i], j, alt)] :
                                     alt \in Alternatives(Bases[i][j].k, Bases[i]) } :
                                   j \in 1..Len(Bases[i]) } :
                           i \in 1..Len(Bases) }
        b2 == IF MaxSubst < 2 THEN {}
              ELSE UNION { UNION { UNION { { [bytes |-> LineBytes(Subst(Subst(Bases[i], j, a1), k, a2)),
                                              tag |-> [g |-> "mc", base |-> LineBytes(Bases[i]), elem |-> "two", repl |-> << >>]] :
                                             a1 \in Alternatives(Bases[i][j].k, Bases[i]), a2 \in Alternatives(Bases[i][k].k, Bases[i]) } :
                                           k \in (j + 1)..Len(Bases[i]) } :
                                   j \in 1..Len(Bases[i]) } :
                           i \in {1, 3, 6} \cap 1..Len(Bases) }
    IN  { [bytes |-> s.bytes \o t, tag |-> s.tag] : s \in b0 \cup b1, t \in Trailers }
        \cup { [bytes |-> s.bytes \o t, tag |-> s.tag] : s \in b2, t \in { << >>, B("5") } }

(***************************************************************************)
(* Behaviours                                                              *)
(***************************************************************************)
MCInit ==
    \E s \in Streams :
        /\ full = s.bytes
        /\ tag = s.tag
        /\ buf = << >>
        /\ verdict = ModelVerdict(<< >>)
        /\ hprev = Hist0
        /\ hist = NextHist(Hist0, << >>, ModelVerdict(<< >>))

MCRecv ==
    /\ Len(buf) < Len(full)
    /\ LET chunk == << full[Len(buf) + 1] >>
       IN  Recv(chunk, ModelVerdict(buf \o chunk))
    /\ hprev' = hist
    /\ UNCHANGED << full, tag >>

MCNext == MCRecv
MCSpec == MCInit /\ [][MCNext]_mvars

(***************************************************************************)
(* Invariants: the properties, on the specified algorithm.                 *)
(***************************************************************************)
NoFails(S) == S = {}

InvC01 == NoFails(C01_Fails(buf, verdict))
InvC03 == NoFails(C03_Fails(buf, verdict))
InvC04 == NoFails(C04_Fails(buf, verdict, hprev))
InvC05 == NoFails(C05_Fails(buf, verdict, hprev))
InvC06 == NoFails(C06_Fails(buf, verdict))
InvC08 == NoFails(C08_StreamFails(buf, verdict))
InvC12 == NoFails(C12_Eval(tag, buf, verdict).f)
InvC15 == NoFails(C15_Fails(buf, verdict))
InvC16 == NoFails(C16_Fails(buf, verdict))
InvC18 == NoFails(C18_Fails(buf, verdict))

(***************************************************************************)
(* Liveness (the other face of C18): under weak fairness of the reads, a   *)
(* stream whose first line break arrives, or that exceeds 107 bytes, leads *)
(* to a complete verdict -- a peer cannot keep the receiver waiting with a *)
(* malformed line.  Checked without any state constraint.                  *)
(***************************************************************************)
MCLive == MCSpec /\ WF_mvars(MCNext)
LiveDelivery == <>(buf = full)
LiveC18 == V1!FinalWindow(full) => <>(HasFlags(verdict["v1b"]) /\ verdict["v1b"].cmp /\ HasFlags(verdict["auto"]) /\ verdict["auto"].cmp)
(* and once the final window is reached a complete verdict stays complete.  (Before that window a
   terminal verdict is NOT necessarily stable in the crate, nor in this model of it: `PROXY  PROX`
   is InvalidProtocol, one byte later `PROXY  PROXY` is Partial again, because the keyword check
   asks whether the input ENDS with the first token.  No listed property forbids that - C18 speaks
   about the final window only - so the unrestricted form of this property, which TLC refuted on
   the base line `PROXY UNKNOWN PROXY` with its protocol replaced by nothing, was too strong.) *)
StableC18 == [][(V1!FinalWindow(buf) /\ HasFlags(verdict["v1b"]) /\ verdict["v1b"].cmp) => (HasFlags(verdict'["v1b"]) /\ verdict'["v1b"].cmp)]_mvars

(* one scenario per completed behaviour *)
Export ==
    (buf = full) =>
        PrintT("SCN" \o ToJson([fam |-> "stream", tag |-> tag, bytes |-> full, cut |-> "each",
                                final |-> [e \in {"v1b", "v2", "auto"} |-> verdict[e].k]]))

=============================================================================
