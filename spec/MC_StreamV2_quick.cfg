SPECIFICATION MCSpec
CONSTANTS
    Level = 1
INVARIANTS InvC02 InvC03 InvC04 InvC05 InvC06 InvC11 InvC12 InvC14 InvC16 InvC17 Export
CHECK_DEADLOCK FALSE
