SPECIFICATION MCSpec
CONSTANTS
    MaxJunk = 6
INVARIANTS InvC03 InvC04 InvC05 InvC06 Export
CHECK_DEADLOCK FALSE
