SPECIFICATION MCSpec
CONSTANTS
    Level = 2
INVARIANTS InvC08 Export
CHECK_DEADLOCK FALSE
