---------------------------- MODULE StreamModel -----------------------------
(***************************************************************************)
(* What the specification predicts every entry point returns on a buffer:  *)
(* `ModelVerdict(b)` has the shape of the observations the harness logs,   *)
(* computed with the implementation-shaped parsers (V1 Part II, V2!Parse,  *)
(* the auto-detection rule of src/lib.rs) and the view definitions.        *)
(*                                                                         *)
(* Used (1) by the bounded models as the `v` of Stream!Recv, so that TLC   *)
(* checks the property predicates on the specified algorithm, and (2) by   *)
(* trace validation to report model drift: observables of the real crate   *)
(* that differ from the prediction without violating a listed property.    *)
(***************************************************************************)
EXTENDS Stream

Msg == INSTANCE Messages

WOk(x) == [k |-> "ok", v |-> x]

(* ---- v1 ---- *)
V1Views(hdr, proto, val) ==
    [protocol |-> WOk(V1!ProtocolViewM(proto)),
     astr     |-> IF V1!AddressesStrInRange(hdr, proto) THEN WOk(V1!AddressesStrM(hdr, proto)) ELSE [k |-> "panic"],
     disp     |-> WOk(hdr),
     adisp    |-> WOk(V1!FormatAddresses(val)),
     dbg_ok   |-> TRUE,
     hdr      |-> hdr]

V1Full(r, full) ==
    IF r.k = "err"
    THEN [k |-> "err", e |-> r.e, w |-> r.w, inc |-> r.e \in V1!IncompleteKinds, cmp |-> r.e \notin V1!IncompleteKinds, dbg |-> r.e,
          einc |-> r.e \in V1!IncompleteKinds, ecmp |-> r.e \notin V1!IncompleteKinds]
    ELSE LET val == [proto |-> r.proto, sa |-> r.sa, da |-> r.da, sp |-> r.sp, dp |-> r.dp]
             base == [k |-> "ok", inc |-> FALSE, cmp |-> TRUE, hdr |-> r.hdr, proto |-> r.proto, sa |-> r.sa, da |-> r.da,
                      sp |-> r.sp, dp |-> r.dp]
             vw == V1Views(r.hdr, r.proto, val)
         IN  IF full THEN base @@ [vw |-> vw, own |-> vw @@ [eq |-> TRUE]] ELSE base

V1AddrOnly(r) ==
    IF r.k = "err" THEN V1Full(r, FALSE)
    ELSE [k |-> "ok", inc |-> FALSE, cmp |-> TRUE, proto |-> r.proto, sa |-> r.sa, da |-> r.da, sp |-> r.sp, dp |-> r.dp]

(* ---- v2 ---- *)
AddrRl(a) == IF a.k = "Unix" THEN [k |-> "Unix", src |-> RlOf(a.src), dst |-> RlOf(a.dst)] ELSE a

ItemObs(i) ==
    IF i.k = "ok" THEN [k |-> "ok", t |-> i.t, v |-> RlOf(i.v), len |-> Len(i.v), empty |-> i.v = << >>,
                        own_eq |-> TRUE, own_t |-> i.t, own_v |-> RlOf(i.v)]
    ELSE i

V2Views(raw, addr) ==
    LET fam == V2!Hi(raw[14])
        tb == V2!ViewTlvBytes(raw)
        w == TlvM!Walk(tb)
        none3 == << [k |-> "none"], [k |-> "none"], [k |-> "none"] >>
    IN  [k |-> "ok", length |-> V2!ViewLength(raw), len |-> Len(raw), is_empty |-> raw = << >>,
         af |-> addr.k, ab |-> RlOf(V2!ViewAddressBytes(raw)), tb |-> RlOf(tb), raw |-> RlOf(raw),
         alen |-> V2!FamilySize(V2!FamilyCode(addr.k)), aempty |-> addr.k = "Unspecified",
         afsize |-> V2!FamilySize(V2!FamilyCode(addr.k)), disp |-> "-",
         walk |-> [k |-> "ok", items |-> CapItems([i \in 1..Len(w) |-> ItemObs(w[i])] \o none3), n |-> Len(w) + 3, hit_bound |-> FALSE]]

V2Full(r, full) ==
    IF r.k = "err"
    THEN [k |-> "err", e |-> r.e, a |-> r.a, b |-> r.b, inc |-> r.e \in V2!IncompleteKinds, cmp |-> r.e \notin V2!IncompleteKinds,
          einc |-> r.e \in V2!IncompleteKinds, ecmp |-> r.e \notin V2!IncompleteKinds]
    ELSE LET addr == AddrRl(r.addr)
             base == [k |-> "ok", inc |-> FALSE, cmp |-> TRUE, ver |-> "Two", cmd |-> r.cmd, tr |-> r.tr, addr |-> addr, raw |-> RlOf(r.raw)]
             vw == V2Views(r.raw, addr)
         IN  IF full THEN base @@ [vw |-> vw, own |-> vw @@ [eq |-> TRUE, addr |-> addr]] ELSE base

(* ---- auto-detection (src/lib.rs): v2 first, v1 iff v2 fails terminally ---- *)
AutoModel(b) ==
    LET two == V2!Parse(b)
    IN  IF two.k = "err" /\ two.e \notin V2!IncompleteKinds
        THEN LET r == V1Full(V1!ParseBytesM(b), FALSE) IN [k |-> r.k, tag |-> "V1", inc |-> r.inc, cmp |-> r.cmp, r |-> r]
        ELSE LET r == V2Full(two, FALSE) IN [k |-> r.k, tag |-> "V2", inc |-> r.inc, cmp |-> r.cmp, r |-> r]

ModelVerdict(b) ==
    LET text == Utf8Valid(b)
        s == V1!ParseStrM(b)
        na == [k |-> "na"]
    IN  [e \in EntryPoints |->
            CASE e = "v1b"  -> V1Full(V1!ParseBytesM(b), TRUE)
              [] e = "v1s"  -> IF text THEN V1Full(s, TRUE) ELSE na
              [] e = "v1fh" -> IF text THEN V1Full(s, FALSE) ELSE na
              [] e = "v1fa" -> IF text THEN V1AddrOnly(s) ELSE na
              [] e = "v2"   -> V2Full(V2!Parse(b), TRUE)
              [] OTHER      -> AutoModel(b)]

(***************************************************************************)
(* Model drift: the core of each observed outcome against the prediction.  *)
(***************************************************************************)
CoreV1Differs(o, m, withHdr) ==
    \/ o.k # m.k
    \/ (m.k = "err" /\ (o.e # m.e \/ o.w # m.w \/ o.inc # m.inc))
    \/ (m.k = "ok" /\ ((withHdr /\ o.hdr # m.hdr) \/ o.proto # m.proto \/ o.sa # m.sa \/ o.da # m.da \/ o.sp # m.sp \/ o.dp # m.dp))

CoreV2Differs(o, m) ==
    \/ o.k # m.k
    \/ (m.k = "err" /\ (o.e # m.e \/ o.a # m.a \/ o.b # m.b \/ o.inc # m.inc))
    \/ (m.k = "ok" /\ (o.cmd # m.cmd \/ o.tr # m.tr \/ o.addr # m.addr \/ o.raw # m.raw))

(* (flat byte strings on the model side: long headers are compared without re-encoding them) *)
CoreV2DiffersFlat(o, m) ==
    \/ o.k # m.k
    \/ (m.k = "err" /\ (o.e # m.e \/ o.a # m.a \/ o.b # m.b \/ o.inc # (m.e \in V2!IncompleteKinds)))
    \/ (m.k = "ok" /\ (o.cmd # m.cmd \/ o.tr # m.tr \/ ~SameAddr(o.addr, m.addr) \/ Flat(o.raw) # m.raw))

DriftFails(b, v) ==
    LET skip(o) == o.k \in {"panic", "none"}
        text == Utf8Valid(b)
        mb == V1Full(V1!ParseBytesM(b), TRUE)
        ms == V1Full(V1!ParseStrM(b), TRUE)
        m2 == V2!Parse(b)
        v1(e, m, withHdr) ==
            IF skip(v[e]) THEN {}
            ELSE IF v[e].k = "na" \/ (e # "v1b" /\ ~text) THEN (IF (v[e].k = "na") # (e # "v1b" /\ ~text) THEN {<< "DRIFT", "applicability", e >>} ELSE {})
            ELSE IF CoreV1Differs(v[e], m, withHdr) THEN {<< "DRIFT", "v1-outcome", e >>} ELSE {}
        two == IF skip(v["v2"]) THEN {} ELSE IF CoreV2DiffersFlat(v["v2"], m2) THEN {<< "DRIFT", "v2-outcome", "v2" >>} ELSE {}
        views ==
            IF skip(v["v2"]) \/ v["v2"].k # "ok" \/ m2.k # "ok" \/ v["v2"].vw.k # "ok" THEN {}
            ELSE LET w == v["v2"].vw
                     raw == m2.raw
                 IN  IF Flat(w.ab) # V2!ViewAddressBytes(raw) \/ Flat(w.tb) # V2!ViewTlvBytes(raw) \/ Flat(w.raw) # raw
                        \/ w.length # V2!ViewLength(raw) \/ w.len # Len(raw) \/ w.is_empty \/ w.af # m2.addr.k
                        \/ w.tlvs_len # (Len(V2!ViewTlvBytes(raw)) % 65536) \/ w.tlvs_empty # (V2!ViewTlvBytes(raw) = << >>) \/ ~w.tlvs_bytes_eq
                        \/ w.afbl # (IF m2.addr.k = "Unspecified" THEN -1 ELSE V2!FamilySize(V2!FamilyCode(m2.addr.k)))
                        \/ w.alen # V2!FamilySize(V2!FamilyCode(m2.addr.k)) \/ w.afsize # V2!FamilySize(V2!FamilyCode(m2.addr.k))
                        \/ w.aempty # (m2.addr.k = "Unspecified")
                     THEN {<< "DRIFT", "v2-views", "v2" >>}
                     ELSE IF w.disp # Msg!V2HeaderDisplay(raw[13], raw[14], V2!ViewLength(raw)) THEN {<< "DRIFT", "v2-display", "v2" >>}
                     ELSE {}
        v1views(e, m) ==
            IF skip(v[e]) \/ v[e].k # "ok" \/ m.k # "ok" THEN {}
            ELSE IF \E f \in {"protocol", "astr", "disp", "adisp"} : v[e].vw[f] # m.vw[f]
                 THEN {<< "DRIFT", "v1-views", e >>} ELSE {}
        a == v["auto"]
        useV1 == m2.k = "err" /\ m2.e \notin V2!IncompleteKinds
        auto == IF skip(a) THEN {}
                ELSE IF a.tag # (IF useV1 THEN "V1" ELSE "V2")
                        \/ (useV1 /\ (CoreV1Differs(a.r, mb, TRUE) \/ a.inc # mb.inc))
                        \/ (~useV1 /\ (CoreV2DiffersFlat(a.r, m2) \/ a.inc # (m2.k = "err" /\ m2.e \in V2!IncompleteKinds)))
                     THEN {<< "DRIFT", "auto-outcome", "auto" >>} ELSE {}
        (* Display of the error values (no property constrains the wording) *)
        msg1(e) == IF v[e].k = "err" /\ v[e].msg # Msg!V1Message(v[e].e) THEN {<< "DRIFT", "v1-error-message", e >>} ELSE {}
        msg2 == IF v["v2"].k = "err" /\ v["v2"].msg # Msg!V2Message(v["v2"].e, v["v2"].a, v["v2"].b)
                THEN {<< "DRIFT", "v2-error-message", "v2" >>} ELSE {}
    IN  msg1("v1b") \cup msg1("v1s") \cup msg2 \cup v1("v1b", mb, TRUE) \cup v1("v1s", ms, TRUE) \cup v1("v1fh", ms, TRUE) \cup v1("v1fa", ms, FALSE) \cup two \cup views
        \cup v1views("v1b", mb) \cup (IF text THEN v1views("v1s", ms) ELSE {}) \cup auto

=============================================================================
