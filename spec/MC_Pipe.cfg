SPECIFICATION MCSpec
INVARIANTS Conservation InOrder AcceptIffHeader AllTaken InvC04 InvC05 InvC06 Export
CHECK_DEADLOCK FALSE
