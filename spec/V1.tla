-------------------------------- MODULE V1 ---------------------------------
(***************************************************************************)
(* PROXY protocol version 1 (text).                                        *)
(*                                                                         *)
(* Part I  is declarative: what a well-formed line IS and what it denotes. *)
(*         It is the oracle of C01 / C04 / C05 / C08 / C12 / C15 / C18.    *)
(* Part II is implementation-shaped: the algorithm of src/v1/mod.rs        *)
(*         (window cut, splitn(7) on SP|CR, Missing* before validation,    *)
(*         ...), predicting every observable including error kinds.        *)
(* The bounded models check that Part II satisfies the properties stated   *)
(* with Part I; trace validation checks the real crate against Part I      *)
(* (gating) and against Part II (model drift, reported only).              *)
(***************************************************************************)
EXTENDS IpText

CR == 13
LF == 10
SP == 32

PROXY   == << 80, 82, 79, 88, 89 >>
TCP4    == << 84, 67, 80, 52 >>
TCP6    == << 84, 67, 80, 54 >>
UNKNOWN == << 85, 78, 75, 78, 79, 87, 78 >>
CRLF    == << CR, LF >>

MaxLen == 107

(***************************************************************************)
(* Part I -- the language                                                  *)
(***************************************************************************)

(* `body` is a line without its CRLF (hence without any CR) *)
UnknownBody(body) ==
    /\ StartsWith(body, PROXY \o << SP >> \o UNKNOWN)
    /\ (Len(body) = 13 \/ body[14] = SP)
    /\ Utf8Valid(body)

TcpBody(body, proto) ==
    LET f == Split(body, {SP})
    IN  /\ Len(f) = 6
        /\ f[1] = PROXY
        /\ f[2] = proto
        /\ IF proto = TCP4 THEN Ipv4Ok(f[3]) /\ Ipv4Ok(f[4]) ELSE Ipv6Ok(f[3]) /\ Ipv6Ok(f[4])
        /\ PortOk(f[5])
        /\ PortOk(f[6])

BodyOk(body) == UnknownBody(body) \/ TcpBody(body, TCP4) \/ TcpBody(body, TCP6)

(* a complete line: at most 107 bytes, its only CR is the last-but-one byte, then LF *)
WellFormedLine(line) ==
    /\ Len(line) >= 2
    /\ Len(line) <= MaxLen
    /\ Find(line, CR) = Len(line) - 1
    /\ line[Len(line)] = LF
    /\ BodyOk(SubSeq(line, 1, Len(line) - 2))

FirstCR(input) == Find(input, CR)

(* length of the accepted header at the start of `input`, 0 if the input is not accepted *)
AcceptedLen(input) ==
    LET c == FirstCR(input)
    IN  IF c > 0 /\ c < Len(input) /\ WellFormedLine(SubSeq(input, 1, c + 1)) THEN c + 1 ELSE 0

(* what a well-formed line denotes: IPv4 addresses as 4 octets, IPv6 as 8 groups *)
Decode(line) ==
    LET body == SubSeq(line, 1, Len(line) - 2)
        f == Split(body, {SP})
    IN  IF TcpBody(body, TCP4)
        THEN [proto |-> "TCP4", sa |-> Ipv4Val(f[3]), da |-> Ipv4Val(f[4]), sp |-> PortVal(f[5]), dp |-> PortVal(f[6])]
        ELSE IF TcpBody(body, TCP6)
        THEN [proto |-> "TCP6", sa |-> Ipv6Val(f[3]), da |-> Ipv6Val(f[4]), sp |-> PortVal(f[5]), dp |-> PortVal(f[6])]
        ELSE [proto |-> "UNKNOWN", sa |-> << >>, da |-> << >>, sp |-> 0, dp |-> 0]

(* C18's precondition: no later byte can change the verdict *)
FinalWindow(input) ==
    LET c == FirstCR(input)
    IN  (c > 0 /\ c < Len(input)) \/ (c = 0 /\ Len(input) >= MaxLen)

(* the part of the input the parser may look at: through the byte after the first CR *)
WindowLen(input) ==
    LET c == FirstCR(input) IN IF c > 0 THEN Min2(c + 1, Len(input)) ELSE Len(input)

(* the kinds `PartialResult` classifies as incomplete *)
IncompleteKinds == {"Partial", "MissingPrefix", "MissingProtocol", "MissingSourceAddress",
                    "MissingDestinationAddress", "MissingSourcePort", "MissingDestinationPort",
                    "MissingNewLine"}

ProtoText(p) == IF p = "TCP4" THEN TCP4 ELSE IF p = "TCP6" THEN TCP6 ELSE UNKNOWN

(* C08: the line `Display` must print for an address value (RFC 5952 IPv6 text) *)
FormatAddresses(a) ==
    IF a.proto = "UNKNOWN" THEN PROXY \o << SP >> \o UNKNOWN \o CRLF
    ELSE LET ip(x) == IF a.proto = "TCP4" THEN Ipv4Text(x) ELSE Ipv6Canonical(x)
         IN  PROXY \o << SP >> \o ProtoText(a.proto) \o << SP >> \o ip(a.sa) \o << SP >> \o ip(a.da)
               \o << SP >> \o DecText(a.sp) \o << SP >> \o DecText(a.dp) \o CRLF

(***************************************************************************)
(* Part II -- the algorithm of src/v1/mod.rs, step by step.                *)
(* Outcomes: [k |-> "ok", hdr, proto, sa, da, sp, dp] or                   *)
(*           [k |-> "err", e |-> kind, w |-> "Parse" | "Utf8" | "-"].      *)
(***************************************************************************)
ErrM(kind) == [k |-> "err", e |-> kind, w |-> "-"]
OkM(header, d) == [k |-> "ok", hdr |-> header, proto |-> d.proto, sa |-> d.sa, da |-> d.da, sp |-> d.sp, dp |-> d.dp]

(* `u16::from_str` after the sign / leading-zero tests of the crate *)
PortParses(s) == s # << >> /\ IsDigits(s) /\ Len(s) <= 5 /\ DecValue(s) <= 65535
PortRejectedEarly(s) == (s # << >> /\ s[1] = 48 /\ s # << 48 >>) \/ (s # << >> /\ s[1] = 43)

(* parse_addresses: p = all pieces, i = index of the first piece after the protocol.
   All four pieces are required BEFORE any of them is validated. *)
ParseAddressesM(p, i, six) ==
    LET n == Len(p)
        ipOk(t) == IF six THEN Ipv6Ok(t) ELSE Ipv4Ok(t)
        ipVal(t) == IF six THEN Ipv6Val(t) ELSE Ipv4Val(t)
    IN  IF i > n THEN ErrM("MissingSourceAddress")
        ELSE IF i + 1 > n THEN ErrM("MissingDestinationAddress")
        ELSE IF i + 2 > n THEN ErrM("MissingSourcePort")
        ELSE IF i + 3 > n \/ (p[i + 3] = << >> /\ i + 3 = n) THEN ErrM("MissingDestinationPort")
        ELSE IF ~ipOk(p[i]) THEN ErrM("InvalidSourceAddress")
        ELSE IF ~ipOk(p[i + 1]) THEN ErrM("InvalidDestinationAddress")
        ELSE IF PortRejectedEarly(p[i + 2]) \/ ~PortParses(p[i + 2]) THEN ErrM("InvalidSourcePort")
        ELSE IF PortRejectedEarly(p[i + 3]) \/ ~PortParses(p[i + 3]) THEN ErrM("InvalidDestinationPort")
        ELSE [k |-> "ok", proto |-> IF six THEN "TCP6" ELSE "TCP4", sa |-> ipVal(p[i]), da |-> ipVal(p[i + 1]),
              sp |-> DecValue(p[i + 2]), dp |-> DecValue(p[i + 3])]

UnknownValue == [proto |-> "UNKNOWN", sa |-> << >>, da |-> << >>, sp |-> 0, dp |-> 0]

(* parse_line *)
ParseLineM(header) ==
    IF header = << >> THEN ErrM("MissingPrefix")
    ELSE IF Len(header) > MaxLen THEN ErrM("HeaderTooLong")
    ELSE LET p == SplitN(header, {SP, CR}, 7)
             prefix == p[1]
         IN  IF prefix # << >> /\ StartsWith(PROXY, prefix) /\ EndsWith(header, prefix) THEN ErrM("Partial")
             ELSE IF prefix # PROXY THEN ErrM("InvalidPrefix")
             ELSE IF Len(p) < 2 THEN ErrM("MissingProtocol")
             ELSE LET proto == p[2]
                  IN  IF proto = TCP4 \/ proto = TCP6
                      THEN LET a == ParseAddressesM(p, 3, proto = TCP6)
                           IN  IF a.k = "err" THEN a
                               ELSE IF Len(p) < 7 \/ p[7] = << >> THEN ErrM("MissingNewLine")
                               ELSE IF p[7] # << LF >> THEN ErrM("InvalidSuffix")
                               ELSE IF ~EndsWith(header, CRLF) THEN ErrM("MissingNewLine")
                               ELSE OkM(header, a)
                      ELSE IF proto = UNKNOWN
                      THEN LET c == Find(header, CR)
                               suffix == SubSeq(header, c + 1, Len(header))
                           IN  IF c = 0 \/ suffix = << >> THEN ErrM("MissingNewLine")
                               ELSE IF suffix = << LF >> THEN OkM(header, UnknownValue)
                               ELSE ErrM("InvalidSuffix")
                      ELSE IF proto = << >> /\ Len(p) = 2 THEN ErrM("MissingProtocol")
                      ELSE IF proto # << >> /\ EndsWith(header, proto) /\ (StartsWith(TCP4, proto) \/ StartsWith(UNKNOWN, proto))
                      THEN ErrM("Partial")
                      ELSE ErrM("InvalidProtocol")

(* terminal: the final counterpart of an error that asks for more input *)
TerminalM(header, kind) ==
    CASE kind = "Partial" -> IF StartsWith(header, PROXY) THEN "InvalidProtocol" ELSE "InvalidPrefix"
      [] kind = "MissingPrefix" -> "InvalidPrefix"
      [] kind = "MissingProtocol" -> "InvalidProtocol"
      [] kind = "MissingSourceAddress" -> "InvalidSourceAddress"
      [] kind = "MissingDestinationAddress" -> "InvalidDestinationAddress"
      [] kind = "MissingSourcePort" -> "InvalidSourcePort"
      [] kind = "MissingDestinationPort" -> "InvalidDestinationPort"
      [] kind = "MissingNewLine" -> "InvalidSuffix"
      [] OTHER -> kind

(* parse_header: a terminated line never asks for more input *)
ParseHeaderM(header) ==
    LET c == Find(header, CR)
        terminated == c > 0 /\ c < Len(header)
        r == ParseLineM(header)
    IN  IF r.k = "err" /\ terminated /\ r.e \in IncompleteKinds THEN ErrM(TerminalM(header, r.e)) ELSE r

(* the window both entry points cut before parsing; 0 = "too long, no CR" *)
CutM(input) ==
    LET c == Find(input, CR)
    IN  IF c > 0 THEN Min2(c + 1, Len(input)) ELSE IF Len(input) >= MaxLen THEN -1 ELSE Len(input)

Wrap(r, w) == IF r.k = "err" THEN [r EXCEPT !.w = w] ELSE r

(* v1::Header::try_from(&[u8]) *)
ParseBytesM(input) ==
    LET n == CutM(input)
        window == SubSeq(input, 1, n)
    IN  IF n = -1 THEN Wrap(ErrM("HeaderTooLong"), "Parse")
        ELSE IF ~Utf8Valid(window) THEN Wrap(ErrM("InvalidUtf8"), "Utf8")
        ELSE Wrap(ParseHeaderM(window), "Parse")

RECURSIVE NextBoundary(_, _)
NextBoundary(input, n) == IF Utf8Boundary(input, n) THEN n ELSE NextBoundary(input, n + 1)

(* v1::Header::try_from(&str); `input` is well-formed UTF-8 *)
ParseStrM(input) ==
    LET n == CutM(input)
    IN  IF n = -1 THEN ErrM("HeaderTooLong")
        ELSE ParseHeaderM(SubSeq(input, 1, NextBoundary(input, n)))

IncompleteM(r) == r.k = "err" /\ r.e \in IncompleteKinds

(* ---- views of src/v1/model.rs, with the index arithmetic of the code ---- *)
ProtocolViewM(proto) == ProtoText(proto)

AddressesStrRange(hdr, proto) ==
    [start |-> 5 + 1 + Len(ProtoText(proto)), end |-> Len(hdr) - 2]

(* the slice is taken only if the range is in order and in bounds, otherwise the code panics *)
AddressesStrInRange(hdr, proto) ==
    LET r == AddressesStrRange(hdr, proto)
    IN  r.start <= r.end /\ r.end <= Len(hdr) /\ Utf8Boundary(hdr, r.start) /\ Utf8Boundary(hdr, r.end)

AddressesStrM(hdr, proto) ==
    LET r == AddressesStrRange(hdr, proto)
        a == SubSeq(hdr, r.start + 1, r.end)
    IN  IF a # << >> /\ a[1] = SP THEN Tail(a) ELSE a

(***************************************************************************)
(* Single-element corruption (C12).  A well-formed line has a unique       *)
(* element structure; `Elements(line)` returns it as a record of byte      *)
(* strings, `WithElement` rebuilds the line with one element replaced.     *)
(***************************************************************************)
IsTcpLine(line) == LET body == SubSeq(line, 1, Len(line) - 2) IN TcpBody(body, TCP4) \/ TcpBody(body, TCP6)

Elements(line) ==
    LET body == SubSeq(line, 1, Len(line) - 2)
        f == Split(body, {SP})
    IN  IF IsTcpLine(line)
        THEN [kw |-> f[1], proto |-> f[2], src |-> f[3], dst |-> f[4], sport |-> f[5], dport |-> f[6],
              text |-> << >>, lf |-> << LF >>]
        ELSE [kw |-> PROXY, proto |-> UNKNOWN, src |-> << >>, dst |-> << >>, sport |-> << >>, dport |-> << >>,
              text |-> SubSeq(body, 14, Len(body)), lf |-> << LF >>]

Assemble(line, e) ==
    IF IsTcpLine(line)
    THEN e.kw \o << SP >> \o e.proto \o << SP >> \o e.src \o << SP >> \o e.dst \o << SP >> \o e.sport
           \o << SP >> \o e.dport \o << CR >> \o e.lf
    ELSE e.kw \o << SP >> \o e.proto \o e.text \o << CR >> \o e.lf

(* printable US-ASCII without SP: what a replaced field may consist of *)
FieldBytes == 33..126

(* Is `repl` a replacement for element `elem` of well-formed `line` that C12 speaks about:
   invalid for that element, and not disturbing the other elements? *)
InvalidFor(line, elem, repl) ==
    LET tcp == IsTcpLine(line)
        six == tcp /\ Elements(line).proto = TCP6
    IN  CASE elem = "kw"    -> AllIn(repl, FieldBytes) /\ repl # PROXY
          [] elem = "proto" -> AllIn(repl, FieldBytes) /\ repl \notin {TCP4, TCP6, UNKNOWN}
          [] elem = "src"   -> tcp /\ AllIn(repl, FieldBytes) /\ ~(IF six THEN Ipv6Ok(repl) ELSE Ipv4Ok(repl))
          [] elem = "dst"   -> tcp /\ AllIn(repl, FieldBytes) /\ ~(IF six THEN Ipv6Ok(repl) ELSE Ipv4Ok(repl))
          [] elem = "sport" -> tcp /\ AllIn(repl, FieldBytes) /\ ~PortOk(repl)
          [] elem = "dport" -> tcp /\ AllIn(repl, FieldBytes) /\ ~PortOk(repl)
          [] elem = "lf"    -> repl # << LF >> /\ repl # << >> /\ Utf8SeqLen(repl, 1) = Len(repl)   \* one character
          [] elem = "long"  -> ~tcp /\ repl # << >> /\ repl[1] = SP /\ Find(repl, CR) = 0 /\ Utf8Valid(repl)
                                 /\ 13 + Len(repl) + 2 > MaxLen
          [] elem = "utf8"  -> ~tcp /\ repl # << >> /\ repl[1] = SP /\ Find(repl, CR) = 0 /\ ~Utf8Valid(repl)
                                 /\ 13 + Len(repl) + 2 <= MaxLen
          [] OTHER -> FALSE

Corrupted(line, elem, repl) ==
    LET e == Elements(line)
    IN  CASE elem = "kw"    -> Assemble(line, [e EXCEPT !.kw = repl])
          [] elem = "proto" -> Assemble(line, [e EXCEPT !.proto = repl])
          [] elem = "src"   -> Assemble(line, [e EXCEPT !.src = repl])
          [] elem = "dst"   -> Assemble(line, [e EXCEPT !.dst = repl])
          [] elem = "sport" -> Assemble(line, [e EXCEPT !.sport = repl])
          [] elem = "dport" -> Assemble(line, [e EXCEPT !.dport = repl])
          [] elem = "lf"    -> Assemble(line, [e EXCEPT !.lf = repl])
          [] OTHER          -> Assemble(line, [e EXCEPT !.text = repl])

(* the error kind that names the element *)
KindFor(elem) ==
    CASE elem = "kw"    -> "InvalidPrefix"
      [] elem = "proto" -> "InvalidProtocol"
      [] elem = "src"   -> "InvalidSourceAddress"
      [] elem = "dst"   -> "InvalidDestinationAddress"
      [] elem = "sport" -> "InvalidSourcePort"
      [] elem = "dport" -> "InvalidDestinationPort"
      [] elem = "lf"    -> "InvalidSuffix"
      [] elem = "long"  -> "HeaderTooLong"
      [] elem = "utf8"  -> "InvalidUtf8"
      [] OTHER -> "?"

=============================================================================
