----------------------------- MODULE MC_Convert -----------------------------
(***************************************************************************)
(* Bounded model for C19: every assignment of distinguishable markers to   *)
(* the four roles (source / destination address and port), for both        *)
(* families and both protocol versions, and every pair of socket addresses *)
(* (V4/V4, V6/V6 with flow-info and scope, mixed).  The model-level        *)
(* statement is that the expected records of Convert.tla keep each marker  *)
(* in its role and that the v1 and v2 conversions of a pair describe the   *)
(* same endpoints; every call is exported as a `convert` scenario.         *)
(***************************************************************************)
EXTENDS Bytes, Json, TLC

Cv == INSTANCE Convert

VARIABLE call

A4 == { << 10, 0, 0, 1 >>, << 192, 168, 7, 9 >> }
Mapped(a, b, c, d) == << 0, 0, 0, 0, 0, 0, 0, 0, 0, 0, 255, 255, a, b, c, d >>
A6 == { [i \in 1..16 |-> i], [i \in 1..16 |-> 200 + i], Mapped(203, 0, 113, 9), Mapped(10, 0, 0, 1), [i \in 1..16 |-> 0] }
Ports == { 258, 772 }

Quad4 == { [sa |-> s, da |-> d, sp |-> p, dp |-> q] : s \in A4, d \in A4, p \in Ports, q \in Ports }
Quad6 == { [sa |-> s, da |-> d, sp |-> p, dp |-> q] : s \in A6, d \in A6, p \in Ports, q \in Ports }

Socks == { [fam |-> 4, ip |-> a, port |-> p, flow |-> 0, scope |-> 0] : a \in A4, p \in Ports }
         \cup { [fam |-> 6, ip |-> a, port |-> p, flow |-> f, scope |-> sc] : a \in A6, p \in Ports, f \in {0, 77}, sc \in {0, 5} }

Calls ==
    { [op |-> o, args |-> a] : o \in {"IPv4New", "V1NewTcp4", "V1FromIPv4", "V2FromIPv4"}, a \in Quad4 }
    \cup { [op |-> o, args |-> a] : o \in {"IPv6New", "V1NewTcp6", "V1FromIPv6", "V2FromIPv6"}, a \in Quad6 }
    \cup { [op |-> "FromPair", args |-> [s |-> s, d |-> d]] : s \in Socks, d \in Socks }

MCInit == call \in Calls
MCNext == UNCHANGED call
MCSpec == MCInit /\ [][MCNext]_call

InvRoles ==
    IF call.op = "FromPair"
    THEN LET e == Cv!PairExpected(call.args.s, call.args.d)
             same == call.args.s.fam = call.args.d.fam
         IN  /\ same => /\ e.v1.sa = call.args.s.ip /\ e.v1.da = call.args.d.ip
                        /\ e.v1.sp = call.args.s.port /\ e.v1.dp = call.args.d.port
                        /\ e.v2.sa = e.v1.sa /\ e.v2.da = e.v1.da /\ e.v2.sp = e.v1.sp /\ e.v2.dp = e.v1.dp
             /\ ~same => e.v1.k = "Unknown" /\ e.v2.k = "Unspecified"
    ELSE LET e == Cv!Expected(call.op, call.args)
         IN  e.sa = call.args.sa /\ e.da = call.args.da /\ e.sp = call.args.sp /\ e.dp = call.args.dp

Export == PrintT("SCN" \o ToJson([fam |-> "convert", op |-> call.op, args |-> call.args]))

=============================================================================
