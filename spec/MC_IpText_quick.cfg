SPECIFICATION MCSpec
CONSTANTS
    MaxLen = 5
    Level = 1
INVARIANTS InvShape InvCanonical Export
CHECK_DEADLOCK FALSE
