SPECIFICATION MCSpec
CONSTANTS
    Level = 1
INVARIANTS InvC08 Export
CHECK_DEADLOCK FALSE
