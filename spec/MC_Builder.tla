----------------------------- MODULE MC_Builder -----------------------------
(***************************************************************************)
(* Bounded model of `v2::Builder`: every call sequence up to MaxDepth over *)
(* both constructors and a call alphabet that contains set_length at every *)
(* position (None / 0 / small / 65535), reservations, single and batched   *)
(* writes of every kind of value, and payloads that put the total below,   *)
(* at and above 65535 bytes (run-length form makes them cheap).            *)
(* In every reachable state `build()` is evaluated (BuildResult) and must  *)
(* satisfy C09 and C10; TLV-only sequences with valid codes must produce   *)
(* the wire format and parse back (C07); every value must reach the buffer *)
(* as exactly its encoding (C20).  Behaviours are exported as scenarios.   *)
(***************************************************************************)
EXTENDS Builder, Json, TLC

CONSTANTS MaxDepth, Level

VARIABLES ops       \* the calls made so far (constructor first), for export

mvars == << b, ops >>

TlvW == INSTANCE TlvWalk

U(ty, mag) == [ty |-> ty, neg |-> FALSE, mag |-> mag]
S(ty, mag) == [ty |-> ty, neg |-> TRUE, mag |-> mag]
Run(byte, n) == IF n = 0 THEN << >> ELSE << << byte, n >> >>
Named(n) == [ty |-> "named", name |-> n]
Raw(c) == [ty |-> "raw", code |-> c]

Ip4 == [k |-> "IPv4", sa |-> << 127, 0, 0, 1 >>, da |-> << 192, 168, 1, 2 >>, sp |-> 258, dp |-> 443]
Ip6 == [k |-> "IPv6", sa |-> [i \in 1..16 |-> i], da |-> [i \in 1..16 |-> 100 + i], sp |-> 1, dp |-> 65535]
Unx == [k |-> "Unix", src |-> << << 47, 1 >>, << 97, 1 >>, << 0, 106 >> >>, dst |-> << << 47, 1 >>, << 98, 1 >>, << 0, 106 >> >>]
Unspecified == [k |-> "Unspecified"]

Ctors ==
    IF Level = 1
    THEN { [op |-> "BNew", vc |-> 33, afp |-> 17], [op |-> "BNew", vc |-> 255, afp |-> 0],
           [op |-> "BWith", vc |-> 33, tr |-> "Stream", a |-> Ip4], [op |-> "BWith", vc |-> 32, tr |-> "Datagram", a |-> Unx] }
    ELSE { [op |-> "BNew", vc |-> 33, afp |-> 17], [op |-> "BNew", vc |-> 255, afp |-> 0], [op |-> "BNew", vc |-> 32, afp |-> 49],
           [op |-> "BWith", vc |-> 33, tr |-> "Stream", a |-> Ip4], [op |-> "BWith", vc |-> 32, tr |-> "Datagram", a |-> Unx],
           [op |-> "BWith", vc |-> 33, tr |-> "Unspecified", a |-> Ip6], [op |-> "BWith", vc |-> 32, tr |-> "Stream", a |-> Unspecified] }

Values ==
    IF Level = 1
    THEN { U("u8", << 7 >>), U("u16", << 1, 2 >>), S("i32", << 2 >>),
           [ty |-> "slice", v |-> Run(9, 3)], [ty |-> "slice", v |-> Run(170, 65535)], [ty |-> "slice", v |-> Run(170, 65536)],
           [ty |-> "tlv", t |-> Named("NoOp"), v |-> Run(42, 1)], [ty |-> "tlv", t |-> Raw(238), v |-> Run(1, 65535)],
           [ty |-> "pair", t |-> Named("ALPN"), v |-> Run(1, 65536)], [ty |-> "addr", a |-> Ip4], [ty |-> "type", name |-> "SSL"],
           [ty |-> "tlvs", v |-> Run(7, 65538)] }
    ELSE { U("u8", << 7 >>), U("u16", << 1, 2 >>), U("u32", << 1, 2, 3, 4 >>), U("u64", << 255 >>), U("u128", << 1, 0 >>), U("usize", << 2 >>),
           S("i8", << 2 >>), S("i16", << 1, 0 >>), S("i32", << 2 >>), S("i64", << 128, 0, 0, 0, 0, 0, 0, 0 >>), S("i128", << 1 >>), S("isize", << 3 >>),
           [ty |-> "slice", v |-> << >>], [ty |-> "slice", v |-> Run(9, 3)], [ty |-> "slice", v |-> Run(170, 65535)],
           [ty |-> "slice", v |-> Run(170, 65536)], [ty |-> "slice", v |-> Run(170, 65319)],
           [ty |-> "tlv", t |-> Named("NoOp"), v |-> << >>], [ty |-> "tlv", t |-> Named("NoOp"), v |-> Run(42, 1)],
           [ty |-> "tlv", t |-> Raw(238), v |-> Run(1, 256)], [ty |-> "tlv", t |-> Raw(238), v |-> Run(1, 65535)],
           [ty |-> "tlv", t |-> Raw(0), v |-> Run(1, 65536)],
           [ty |-> "pair", t |-> Named("ALPN"), v |-> Run(1, 2)], [ty |-> "pair", t |-> Raw(5), v |-> Run(1, 65536)],
           [ty |-> "addr", a |-> Ip4], [ty |-> "addr", a |-> Ip6], [ty |-> "addr", a |-> Unx], [ty |-> "addr", a |-> Unspecified],
           [ty |-> "type", name |-> "SSL"], [ty |-> "tlvs", v |-> << << 4, 1 >>, << 0, 1 >>, << 1, 1 >>, << 42, 1 >> >>],
           [ty |-> "tlvs", v |-> Run(7, 65536)], [ty |-> "tlvs", v |-> Run(7, 65538)] }

Calls ==
    { [op |-> "BReserve", n |-> 7] }
    \cup { [op |-> "BSetLen", v |-> x] : x \in (IF Level = 1 THEN {-1, 5, 65535} ELSE {-1, 0, 5, 258, 65535}) }
    \cup { [op |-> "BWrite", p |-> p] : p \in Values }
    \cup { [op |-> "BWrites", ps |-> << U("u8", << 7 >>), [ty |-> "tlv", t |-> Named("NoOp"), v |-> Run(42, 1)] >>, lazy |-> TRUE] }
    \cup { [op |-> "BWrites", ps |-> << >>],
           [op |-> "BWrites", ps |-> << U("u8", << 7 >>), [ty |-> "tlv", t |-> Named("NoOp"), v |-> Run(42, 1)], U("u16", << 1, 2 >>) >>],
           [op |-> "BWrites", ps |-> << [ty |-> "slice", v |-> Run(9, 3)], [ty |-> "slice", v |-> Run(170, 65536)], U("u8", << 7 >>) >>] }
    \cup { [op |-> "BTlv", t |-> Named("Authority"), v |-> Run(104, 2)], [op |-> "BTlv", t |-> Raw(200), v |-> Run(0, 65536)] }

Construct(c) == IF c.op = "BNew" THEN AfterNew(c.vc, c.afp) ELSE AfterWithAddresses(c.vc, c.tr, c.a)

Apply(s, c) ==
    CASE c.op = "BReserve" -> AfterReserve(s, c.n)
      [] c.op = "BSetLen" -> AfterSetLength(s, c.v)
      [] c.op = "BWrite" -> AfterWritePayload(s, c.p)
      [] c.op = "BWrites" -> AfterWritePayloads(s, c.ps)
      [] OTHER -> AfterWriteTlv(s, c.t, c.v)

MCInit == \E c \in Ctors : b = Construct(c) /\ ops = << c >>

MCCall ==
    /\ b.alive
    /\ Len(ops) < MaxDepth
    /\ \E c \in Calls : b' = Apply(b, c) /\ ops' = Append(ops, c)

MCNext == MCCall
MCSpec == MCInit /\ [][MCNext]_mvars

(***************************************************************************)
(* Invariants                                                              *)
(***************************************************************************)
InvC09 == C09_Fails(b, BuildResult(b)) = {}
InvC10 == C10_Fails(b, BuildResult(b)) = {}

(* the implementation-shaped bookkeeping agrees with the ghost history *)
InvHeader == b.alive /\ b.header # NoHeader => RlDrop(b.header, 16) = ExpectedPayload(b)

(* every value reaches an (unlimited) buffer as exactly its encoding *)
InvPieces == \A p \in Values : RlConcat(Pieces(p)) = Encode(p)
InvRefusal == \A p \in Values : Refused(p) <=> (p.ty \in {"tlv", "pair", "slice"} /\ RlLen(p.v) > 65535)

(* C07 at the level of the model: TLV-only sequences with valid codes parse back *)
IsTlvCall(c) == c.op = "BTlv" \/ (c.op = "BWrite" /\ c.p.ty \in {"tlv", "pair"})
TlvOf(c) == IF c.op = "BTlv" THEN [k |-> "ok", t |-> KindCode(c.t), v |-> Flat(c.v)]
            ELSE [k |-> "ok", t |-> KindCode(c.p.t), v |-> Flat(c.p.v)]

InvC07 ==
    LET r == BuildResult(b)
        ctor == ops[1]
        wire == ctor.op = "BWith" /\ ctor.vc \in {32, 33} /\ \A i \in 2..Len(ops) : IsTlvCall(ops[i])
    IN  (wire /\ b.alive /\ r.k = "ok" /\ RlLen(r.v) <= 700) =>
            LET bytes == Flat(r.v)
                parsed == V2!Parse(bytes)
                items == [i \in 1..(Len(ops) - 1) |-> TlvOf(ops[i + 1])]
            IN  /\ parsed.k = "ok"
                /\ parsed.cmd = V2!CommandName(ctor.vc % 16)
                /\ parsed.tr = ctor.tr
                /\ parsed.addr = AddrFlat(ctor.a)
                /\ parsed.raw = bytes
                /\ (ctor.a.k # "Unspecified" => TlvW!Walk(V2!ViewTlvBytes(bytes)) = items)

Export ==
    (Len(ops) = MaxDepth \/ ~b.alive) =>
        PrintT("SCN" \o ToJson([fam |-> "builder", tag |-> [g |-> "mc"], ops |-> Append(ops, [op |-> "BBuild"]),
                                built |-> BuildResult(b).k, alive |-> b.alive]))

=============================================================================
