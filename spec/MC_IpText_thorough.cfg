SPECIFICATION MCSpec
CONSTANTS
    MaxLen = 7
    Level = 2
INVARIANTS InvShape InvCanonical Export
CHECK_DEADLOCK FALSE
