-------------------------- MODULE TlvCursor_proofs --------------------------
(***************************************************************************)
(* TLAPS proofs for the integer abstraction of the TLV cursor: IndInv is   *)
(* an inductive invariant of the faithful cursor and implies the safety    *)
(* properties (in range, at most len/3 + 1 items, nothing after an error). *)
(* Checked with `tlapm TlvCursor_proofs.tla` (bin/check C11 --tier         *)
(* thorough runs it when tlapm is installed).                              *)
(***************************************************************************)
EXTENDS TlvCursor, TLAPS

ASSUME Faithful == Skewed = FALSE

Spec == Init /\ [][Next]_vars

THEOREM InitInv == Init => IndInv
  BY DEF Init, IndInv, InRange

THEOREM Step == IndInv /\ [Next]_vars => IndInv'
<1> SUFFICES ASSUME IndInv, [Next]_vars PROVE IndInv'
  OBVIOUS
<1>1. CASE AtEnd
  BY <1>1 DEF AtEnd, IndInv, InRange
<1>2. CASE Leftover
  BY <1>2 DEF Leftover, IndInv, InRange
<1>3. CASE Item
  <2> PICK l \in 0..65535 : ItemWith(l)
    BY <1>3 DEF Item
  <2> QED
    BY Faithful DEF ItemWith, IndInv, InRange
<1>4. CASE UNCHANGED vars
  BY <1>4 DEF vars, IndInv, InRange
<1> QED
  BY <1>1, <1>2, <1>3, <1>4 DEF Next

THEOREM Implies == IndInv => Safe
  BY DEF IndInv, Safe, InRange, Bound, StopsAfterError

THEOREM Safety == Spec => []Safe
<1>1. Spec => []IndInv
  BY InitInv, Step, PTL DEF Spec
<1> QED
  BY <1>1, Implies, PTL

=============================================================================
