----------------------------- MODULE MC_IpText ------------------------------
(***************************************************************************)
(* Validation of the address-text oracle itself (IpText): every string     *)
(* over {0, 1, f, :, .} up to MaxLen, plus structured candidates (groups   *)
(* from a small set joined by `:`, with `::` at every position and IPv4    *)
(* tails, which brings in 4- and 5-digit groups, octets above 255 and      *)
(* leading zeros).  Model-level: the grammar is self-consistent (8 groups, *)
(* ranges, IPv4 and IPv6 text are disjoint, RFC 5952 text of a value       *)
(* parses back to the value).  Every candidate is exported; the `iptext`   *)
(* traces then compare the grammar with the standard library's parsers     *)
(* (which the crate delegates to): a disagreement is a defect of THIS      *)
(* specification and stops dependent checks with a tool error.             *)
(***************************************************************************)
EXTENDS IpText, Ascii, Json, TLC

CONSTANTS MaxLen, Level

VARIABLE s

Alphabet == { 48, 49, 102, 58, 46 }

Pieces == IF Level = 1 THEN << B("0"), B("1"), B("ffff"), << >> >>
          ELSE << B("0"), B("1"), B("00ab"), B("ffff"), B("12345"), << >>, B("g") >>

Tails == IF Level = 1 THEN { << >>, B("1.2.3.4"), B("256.1.1.1") }
         ELSE { << >>, B("1.2.3.4"), B("256.1.1.1"), B("01.2.3.4"), B("1.2.3"), B("255.255.255.255"), B("1.2.3.4.5") }

RECURSIVE Join(_)
Join(ps) == IF ps = << >> THEN << >> ELSE IF Len(ps) = 1 THEN ps[1] ELSE ps[1] \o << COLON >> \o Join(Tail(ps))

(* n groups chosen by index function f, joined by ':' *)
Groups(n, f) == Join([i \in 1..n |-> Pieces[f[i]]])

Counts == IF Level = 1 THEN {1, 2, 7, 8} ELSE {1, 2, 3, 6, 7, 8, 9}
PieceIdx == 1..Len(Pieces)

(* structured candidates: k groups with all-equal or alternating pieces (keeps the count small),
   a `::` inserted at any group boundary, an optional dotted tail *)
Structured ==
    UNION { UNION { UNION {
        LET gs == [i \in 1..n |-> Pieces[IF i % 2 = 1 THEN a ELSE b]]
            plain == Join(gs)
            withDc(k) == Join(SubSeq(gs, 1, k)) \o << COLON, COLON >> \o Join(SubSeq(gs, k + 1, n))
        IN  { (IF t = << >> THEN x ELSE (IF x = << >> \/ x[Len(x)] = COLON THEN x \o t ELSE x \o << COLON >> \o t)) :
              x \in {plain} \cup { withDc(k) : k \in 0..n }, t \in Tails }
        : b \in PieceIdx } : a \in PieceIdx } : n \in Counts }

Candidates == UNION { [1..n -> Alphabet] : n \in 0..MaxLen } \cup Structured

MCInit == s \in Candidates
MCNext == UNCHANGED s
MCSpec == MCInit /\ [][MCNext]_s

InvShape ==
    /\ Ipv6Ok(s) => (Len(Ipv6Val(s)) = 8 /\ \A i \in 1..8 : Ipv6Val(s)[i] \in 0..65535)
    /\ Ipv4Ok(s) => \A i \in 1..4 : Ipv4Val(s)[i] \in 0..255
    /\ ~(Ipv4Ok(s) /\ Ipv6Ok(s))

InvCanonical ==
    Ipv6Ok(s) => LET c == Ipv6Canonical(Ipv6Val(s)) IN Ipv6Ok(c) /\ Ipv6Val(c) = Ipv6Val(s)

Export == PrintT("SCN" \o ToJson([fam |-> "iptext", t |-> s, ok |-> << Ipv4Ok(s), Ipv6Ok(s) >>]))

=============================================================================
