------------------------------ MODULE TlvWalk ------------------------------
(***************************************************************************)
(* The TLV cursor of src/v2/model.rs (`TypeLengthValues`) as a state       *)
(* machine, and -- independently -- the standard type-length-value walk    *)
(* as a recursive definition over the section (C11's oracle).              *)
(***************************************************************************)
EXTENDS Bytes

(***************************************************************************)
(* The declarative walk: the sequence of items obtained by repeatedly      *)
(* reading a type byte, a big-endian 16-bit length and that many bytes;    *)
(* exactly one error item when < 3 bytes remain or a value overruns.       *)
(***************************************************************************)
OkItem(t, v)        == [k |-> "ok", t |-> t, v |-> v]
OverrunItem(t, len) == [k |-> "err", e |-> "InvalidTLV", a |-> t, b |-> len]
LeftoverItem(n)     == [k |-> "err", e |-> "Leftovers", a |-> n, b |-> 0]
NoItem              == [k |-> "none"]

RECURSIVE WalkFrom(_, _)
WalkFrom(sec, off) ==
    LET rem == Len(sec) - off
    IN  IF rem = 0 THEN << >>
        ELSE IF rem < 3 THEN << LeftoverItem(Len(sec)) >>
        ELSE LET t == sec[off + 1]
                 len == BE16(sec[off + 2], sec[off + 3])
             IN  IF rem < 3 + len THEN << OverrunItem(t, len) >>
                 ELSE << OkItem(t, SubSeq(sec, off + 4, off + 3 + len)) >> \o WalkFrom(sec, off + 3 + len)

Walk(sec) == WalkFrom(sec, 0)

WalkHasError(sec) == LET w == Walk(sec) IN w # << >> /\ w[Len(w)].k = "err"

(* wire encoding of a list of ok items (inverse of Walk on well-formed sections) *)
RECURSIVE EncodeItems(_)
EncodeItems(items) ==
    IF items = << >> THEN << >>
    ELSE << Head(items).t >> \o U16Bytes(Len(Head(items).v)) \o Head(items).v \o EncodeItems(Tail(items))

=============================================================================
