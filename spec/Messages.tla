------------------------------ MODULE Messages ------------------------------
(***************************************************************************)
(* The `Display` text of the crate's error values (src/v1/error.rs,        *)
(* src/v2/error.rs).  No listed property constrains these strings; they    *)
(* are part of the specification of the system's behaviour and are         *)
(* compared as model drift only.                                           *)
(***************************************************************************)
EXTENDS Naturals, Sequences, TLC

HexDigitStr(d) == SubSeq("0123456789ABCDEF", d + 1, d + 1)

RECURSIVE HexStr(_)
(* `{:X}`: upper-case hexadecimal without padding *)
HexStr(n) == IF n < 16 THEN HexDigitStr(n) ELSE HexStr(n \div 16) \o HexDigitStr(n % 16)

V1Message(kind) ==
    CASE kind = "InvalidPrefix" -> "Header must start with 'PROXY'."
      [] kind = "Partial" -> "Header is only partially present."
      [] kind = "MissingPrefix" -> "Header is empty."
      [] kind = "MissingNewLine" -> "Header does not end with the string '\\r\\n'."
      [] kind = "MissingProtocol" -> "Header missing protocol."
      [] kind = "MissingSourceAddress" -> "Header missing source address."
      [] kind = "MissingDestinationAddress" -> "Header missing destination address."
      [] kind = "MissingSourcePort" -> "Header missing source port."
      [] kind = "MissingDestinationPort" -> "Header missing destination port."
      [] kind = "HeaderTooLong" -> "Header does not fit within the expected buffer size of 107 bytes (plus 1 byte for null-terminated strings)."
      [] kind = "InvalidProtocol" -> "Header has an invalid protocol."
      [] kind = "InvalidSuffix" -> "Header must end in '\r\n'."
      [] kind = "InvalidSourceAddress" -> "Header contains invalid IP address for the source."
      [] kind = "InvalidDestinationAddress" -> "Header contains invalid IP address for the destination."
      [] kind = "InvalidSourcePort" -> "Header contains invalid TCP port for the source."
      [] kind = "InvalidDestinationPort" -> "Header contains invalid TCP port for the destination."
      [] kind = "InvalidUtf8" -> "Header is not valid UTF-8."
      [] OTHER -> "?"

V2Message(kind, a, b) ==
    CASE kind = "Incomplete" -> "Expected header to the protocol prefix plus 4 bytes after the prefix (length " \o ToString(a) \o ")."
      [] kind = "Prefix" -> "Expected header to start with a prefix of '\\r\\n\\r\\n\\0\\r\\nQUIT\\n'."
      [] kind = "Version" -> "Expected version " \o HexStr(a) \o " to be equal to 2."
      [] kind = "Command" -> "Invalid command " \o HexStr(a) \o ". Command must be one of: Local, Proxy."
      [] kind = "AddressFamily" -> "Invalid Address Family " \o HexStr(a) \o ". Address Family must be one of: Unspecified, IPv4, IPv6, Unix."
      [] kind = "Protocol" -> "Invalid protocol " \o HexStr(a) \o ". Protocol must be one of: Unspecified, Stream, or Datagram."
      [] kind = "Partial" -> "Header does not contain the advertised length of the address information and TLVs (has " \o ToString(a) \o " out of " \o ToString(b) \o " bytes)."
      [] kind = "InvalidAddresses" -> "Header length of " \o ToString(a) \o " bytes cannot store the " \o ToString(b) \o " bytes required for the address family."
      [] kind = "InvalidTLV" -> "Header is not long enough to contain TLV " \o ToString(a) \o " with length " \o ToString(b) \o "."
      [] kind = "Leftovers" -> "Header contains leftover " \o ToString(a) \o " bytes not accounted for by the address family or TLVs."
      [] OTHER -> "?"

(* `Display` of an accepted v2 header (src/v2/model.rs): the signature as a byte list, the two
   control bytes as `{:#X}`, the payload length *)
V2HeaderDisplay(vc, afp, length) ==
    "[13, 10, 13, 10, 0, 13, 10, 81, 85, 73, 84, 10] 0x" \o HexStr(vc) \o " 0x" \o HexStr(afp) \o " (" \o ToString(length) \o " bytes)"

=============================================================================
