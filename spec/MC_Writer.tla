----------------------------- MODULE MC_Writer ------------------------------
(***************************************************************************)
(* Bounded model for C20: every value of MC_Builder's alphabet written     *)
(* into an empty and into pre-filled writers (below and around the limit). *)
(* Model-level statement: below the limit `write_to` succeeds exactly for  *)
(* the values that fit their 16-bit length, appends exactly Encode(value)  *)
(* and reports its size; a refused value leaves the buffer untouched.      *)
(* Every (prefill, value) is exported as a `writer` scenario.              *)
(***************************************************************************)
EXTENDS MC_Builder

VARIABLES pre, p

wvars == << b, ops, pre, p >>

Prefills == IF Level = 1 THEN { << >>, Run(9, 3), Run(17, 4096) }
            ELSE { << >>, Run(9, 3), Run(17, 4096), Run(17, 65551), Run(17, 65552) }

WInit == b = AfterNew(0, 0) /\ ops = << >> /\ pre \in Prefills /\ p \in Values
WNext == UNCHANGED wvars
WSpec == WInit /\ [][WNext]_wvars

InvC20 ==
    LET r == WriteTo(pre, p)
    IN  RlLen(pre) <= 4096 =>
            IF Refused(p) THEN ~r.ok /\ r.bytes = pre
            ELSE r.ok /\ r.n = RlLen(Encode(p)) /\ r.bytes = RlCat(pre, Encode(p))

(* integers: big-endian at their natural width *)
InvIntWidth == p.ty \in IntTypes => RlLen(Encode(p)) = IntWidth(p.ty)

(* a TLV and the equivalent (type, bytes) pair encode identically *)
InvTlvPair == p.ty = "tlv" => Encode(p) = Encode([p EXCEPT !.ty = "pair"])

WExport == PrintT("SCN" \o ToJson([fam |-> "writer", tag |-> [g |-> "mc"], pre |-> pre, ps |-> << p >>,
                                   refused |-> Refused(p)]))

=============================================================================
