----------------------------- MODULE TraceTlv ------------------------------
(***************************************************************************)
(* Trace validation for the `tlv` family.  A session is TlvOpen(section)   *)
(* followed by one TlvNext per `next()` call on the real cursor (to the    *)
(* first None and two calls beyond).  Each TlvNext is the Next action of   *)
(* Tlv.tla; the logged item must be the one the cursor specification       *)
(* yields in that state.                                                   *)
(***************************************************************************)
EXTENDS Tlv, Json, IOUtils, TLC

CONSTANT Props

Rec == ndJsonDeserialize(IOEnv.TRACE)

VARIABLES l, calls

tvars == << section, offset, yielded, l, calls >>

Ev == Rec[l]
IsEvent(name) == l <= Len(Rec) /\ Ev.op = name /\ l' = l + 1

Sel(p, S) == IF p \in Props THEN S ELSE {}
Flag(p, c) == IF p \in Props /\ c THEN {p} ELSE {}

Emit(fails, nts) ==
    IF fails = {} /\ nts = {} THEN TRUE
    ELSE PrintT(ToJson([ev |-> l, fails |-> fails, nt |-> nts]))

(* C11 asks for "exactly one error item", naming the type and the declared length when a value
   overruns; the error kind, and its payload when fewer than three bytes remain, are drift only *)
(* after every operation the harness also asks the cursor, wherever it stands, for size_hint, len,
   is_empty, as_bytes, Debug, a clone and equality with it: none of these may panic (C03); what
   they say is compared as drift *)
ProbeFails(where) ==
    IF "probe" \notin DOMAIN Ev THEN {}
    ELSE IF Ev.probe.k = "panic" THEN {<< "C03", "panic-in-an-accessor-of-a-moved-cursor", where >>}
    ELSE {}

ProbeDrift(rest) ==
    IF "probe" \notin DOMAIN Ev \/ Ev.probe.k # "ok" THEN {}
    ELSE IF Ev.probe.lo > rest \/ (Ev.probe.hi >= 0 /\ Ev.probe.hi < rest) \/ ~Ev.probe.clone_eq
         THEN {<< "DRIFT", "size_hint-or-clone-of-a-moved-cursor", "probe" >>} ELSE {}

SameItem(obs, exp) ==
    /\ obs.k = exp.k
    /\ (exp.k = "ok" => obs.t = exp.t /\ Flat(obs.v) = exp.v)
    /\ (exp.k = "err" /\ exp.e = "InvalidTLV" => obs.a = exp.a /\ obs.b = exp.b)

TraceInit == section = << >> /\ offset = 0 /\ yielded = << >> /\ l = 1 /\ calls = 0

TraceOpen ==
    /\ IsEvent("TlvOpen")
    /\ Open(Flat(Ev.sec))
    /\ calls' = 0
    /\ Emit(Sel("C03", IF Ev.open.k = "panic" THEN {<< "C03", "panic", "tlv-open" >>} ELSE {})
            \cup Sel("DRIFT", IF Ev.open.k # "panic" /\ (Ev.open.len # RlLen(Ev.sec) % 65536 \/ Ev.open.empty # (Ev.sec = << >>) \/ ~Ev.open.bytes_eq)
                              THEN {<< "DRIFT", "tlvs-len-is_empty-as_bytes", "tlv-open" >>} ELSE {}),
            {})

TraceTlvNext ==
    /\ IsEvent("TlvNext")
    /\ LET exp == NextItem.item
           r == Ev.r
           realCalls == Cardinality({i \in 1..Len(yielded) : yielded[i].k # "none"})
       IN  Emit(Sel("C11", IF r.k = "panic" THEN {}
                           ELSE IF ~SameItem(r, exp) THEN {<< "C11", "item-differs-from-standard-walk", exp.k >>}
                           ELSE {})
                \cup Sel("C03", ProbeFails("tlv-next"))
                \cup Sel("C03", IF r.k = "panic" THEN {<< "C03", "panic", "tlv-next" >>}
                                ELSE IF r.k \in {"ok", "err"} /\ realCalls + 1 > Len(section) \div 3 + 1
                                     THEN {<< "C03", "more-items-than-n/3+1", "tlv-next" >>}
                                ELSE {})
                \cup Sel("DRIFT", IF r.k = "err" /\ exp.k = "err" /\ (r.e # exp.e \/ r.a # exp.a \/ r.b # exp.b)
                                  THEN {<< "DRIFT", "tlv-error-kind-or-payload", r.e >>} ELSE {})
                \cup Sel("C05", IF r.k = "err" /\ (r.ecmp = r.einc \/ r.einc # r.inc)
                                THEN {<< "C05", "is_complete-not-negation-on-error-value", "tlv-item" >>} ELSE {})
                \cup Sel("C05", IF r.k \in {"ok", "err"} /\ (r.cmp = r.inc \/ (r.k = "ok" /\ r.inc))
                                THEN {<< "C05", "is_complete-not-negation", "tlv-item" >>} ELSE {})
                \cup Sel("C16", IF r.k = "ok" /\ (~r.own_eq \/ r.own_t # r.t \/ r.own_v # r.v \/ r.len # RlLen(r.v) \/ r.empty # (r.v = << >>))
                                THEN {<< "C16", "owned-tlv-differs", "tlv-next" >>} ELSE {}),
                Flag("C11", Len(section) > 0) \cup Flag("C03", Len(section) > 0) \cup Flag("C16", r.k = "ok") \cup Flag("C05", r.k \in {"ok", "err"}))
    /\ Next
    /\ calls' = calls + 1

(* the same section consumed through nth / skip / count / last / for_each / fold / collect on fresh
   cursors: every one of them must see the items of the standard walk (then nothing) *)
TraceTlvDerived ==
    /\ IsEvent("TlvDerived")
    /\ LET d == Ev.d
           W == Walk(section)
           none == [k |-> "none"]
           at(n) == IF n <= Len(W) THEN W[n] ELSE none
           sameSeq(obs, exp) == Len(obs) = Len(exp) /\ \A i \in 1..Len(exp) : SameItem(obs[i], exp[i])
           wrong ==
               IF d.k # "ok" THEN {}
               ELSE (IF \E n \in 1..Len(d.nth) : ~SameItem(d.nth[n], at(n)) THEN {<< "C11", "nth-differs-from-standard-walk", "derived" >>} ELSE {})
                    \cup (IF \E n \in 1..Len(d.far) : d.far[n].k # "none" THEN {<< "C11", "item-far-past-the-end", "derived" >>} ELSE {})
                    \cup (IF ~sameSeq(d.skip2, SubSeq(W, 3, Len(W))) THEN {<< "C11", "skip-differs-from-standard-walk", "derived" >>} ELSE {})
                    \cup (IF d.count # Len(W) \/ d.folded # Len(W) THEN {<< "C11", "count-differs-from-standard-walk", "derived" >>} ELSE {})
                    \cup (IF ~SameItem(d.last, at(IF Len(W) = 0 THEN 1 ELSE Len(W))) THEN {<< "C11", "last-differs-from-standard-walk", "derived" >>} ELSE {})
                    \cup (IF ~sameSeq(d.each, W) \/ ~sameSeq(d.collected, W) THEN {<< "C11", "for_each-or-collect-differs-from-standard-walk", "derived" >>} ELSE {})
       IN  Emit(Sel("C11", wrong)
                \cup Sel("C03", IF d.k = "panic" THEN {<< "C03", "panic", "tlv-derived" >>}
                                ELSE IF d.count > Len(section) \div 3 + 1 THEN {<< "C03", "more-items-than-n/3+1", "tlv-derived" >>} ELSE {})
                \cup Sel("DRIFT", IF d.k = "ok" /\ (d.hint_lo > Len(W) \/ (d.hint_hi >= 0 /\ d.hint_hi < Len(W)))
                                  THEN {<< "DRIFT", "size_hint-excludes-the-real-count", "derived" >>} ELSE {}),
                Flag("C11", Len(section) > 0) \cup Flag("C03", TRUE))
    /\ UNCHANGED << section, offset, yielded, calls >>

TraceTlvBound ==
    /\ IsEvent("TlvBound")
    /\ Emit(Sel("C03", {<< "C03", "iteration-did-not-end", "tlv-next" >>}) \cup Sel("C11", {<< "C11", "iteration-did-not-end", "tlv-next" >>}), {})
    /\ UNCHANGED << section, offset, yielded, calls >>

(***************************************************************************)
(* Programs: after TlvRestart (a fresh cursor on the same section) every   *)
(* event is one operation on that ONE cursor - next(), nth(n), or a        *)
(* consuming adaptor run on a clone of the moved cursor (the cursor itself *)
(* is then drained) - and must return what the cursor specification says   *)
(* for the state the earlier operations left.                              *)
(***************************************************************************)
ItemsMatch(obs, exp) == Len(obs) = Len(exp) /\ \A i \in 1..Len(exp) : SameItem(obs[i], exp[i])

TraceRestart ==
    /\ IsEvent("TlvRestart")
    /\ Open(section)
    /\ calls' = 0

TraceTlvNth ==
    /\ IsEvent("TlvNth")
    /\ LET exp == NthFrom(offset, NthArg(Ev.n)).item
           r == Ev.r
       IN  Emit(Sel("C11", IF r.k = "panic" THEN {}
                           ELSE IF ~SameItem(r, exp) THEN {<< "C11", "nth-on-a-moved-cursor-differs-from-standard-walk", exp.k >>}
                           ELSE {})
                \cup Sel("C03", IF r.k = "panic" THEN {<< "C03", "panic", "tlv-nth" >>} ELSE {})
                \cup Sel("C03", ProbeFails("tlv-nth"))
                \cup Sel("DRIFT", ProbeDrift(Len(RestFrom(NthFrom(offset, NthArg(Ev.n)).off)))),
                Flag("C11", Len(section) > 0) \cup Flag("C03", TRUE))
    /\ Nth(Ev.n)
    /\ calls' = calls + 1

TraceTlvRest ==
    /\ IsEvent("TlvRest")
    /\ LET rest == RestFrom(offset)
           r == Ev.r
           none == [k |-> "none"]
           wrong == IF r.k # "ok" THEN FALSE
                    ELSE CASE Ev.how \in {"count", "fold"} -> r.n # Len(rest)
                           [] Ev.how = "last" -> ~SameItem(r.item, IF rest = << >> THEN none ELSE rest[Len(rest)])
                           [] OTHER -> ~ItemsMatch(r.items, rest)
       IN  Emit(Sel("C11", IF wrong THEN {<< "C11", "rest-of-a-moved-cursor-differs-from-standard-walk", Ev.how >>} ELSE {})
                \cup Sel("C03", IF r.k = "panic" THEN {<< "C03", "panic", "tlv-rest" >>} ELSE {})
                \cup Sel("C03", ProbeFails("tlv-rest")),
                Flag("C11", Len(section) > 0) \cup Flag("C03", TRUE))
    /\ Drain
    /\ calls' = calls + 1

(* step_by(k) on a fresh cursor: items 1, 1 + k, 1 + 2k, ... of the walk *)
TraceTlvStepBy ==
    /\ IsEvent("TlvStepBy")
    /\ LET W == Walk(section)
           k == Ev.k
           exp == [i \in 1..((Len(W) + k - 1) \div k) |-> W[1 + (i - 1) * k]]
           r == Ev.r
       IN  Emit(Sel("C11", IF r.k = "ok" /\ ~ItemsMatch(r.items, exp) THEN {<< "C11", "step_by-differs-from-standard-walk", "derived" >>} ELSE {})
                \cup Sel("C03", IF r.k = "panic" THEN {<< "C03", "panic", "tlv-step_by" >>} ELSE {}),
                Flag("C11", Len(section) > 0) \cup Flag("C03", TRUE))
    /\ UNCHANGED << section, offset, yielded, calls >>

(* A section of 4 GiB and more: the logged head followed by zero bytes.  The specification walks
   the head followed by the first m zeros; that stands for the real section as far as the first k
   items go provided its own walk has at least k + 2 items (binding condition). *)
TraceTlvHuge ==
    /\ IsEvent("TlvHuge")
    /\ LET sec == Flat(Ev.head) \o [i \in 1..Ev.m |-> 0]
           W == Walk(sec)
           r == Ev.r
           k == Ev.k
       IN  Emit((IF k + 2 > Len(W) THEN {<< "BIND", "modelled-section-too-short-to-stand-for-the-real-one", "tlv-huge" >>} ELSE {})
                \cup Sel("C11", IF r.k = "ok" /\ k + 2 <= Len(W) /\ ~ItemsMatch(r.items, SubSeq(W, 1, k))
                                THEN {<< "C11", "item-differs-from-standard-walk", "section-of-4-GiB-and-more" >>} ELSE {})
                \cup Sel("C03", IF r.k = "panic" THEN {<< "C03", "panic", "tlv-huge" >>} ELSE {}),
                Flag("C11", TRUE) \cup Flag("C03", TRUE))
    /\ UNCHANGED << section, offset, yielded, calls >>

TraceNext == TraceTlvHuge \/ TraceOpen \/ TraceTlvNext \/ TraceTlvDerived \/ TraceTlvBound \/ TraceRestart \/ TraceTlvNth \/ TraceTlvRest \/ TraceTlvStepBy

TraceSpec == TraceInit /\ [][TraceNext]_tvars

(* the cursor invariants hold along the validated trace as well *)
TraceInv == InRange /\ StopsForGood

TraceAccepted ==
    LET d == TLCGet("stats").diameter
    IN  IF d - 1 = Len(Rec) THEN TRUE
        ELSE Print(<< "TRACE-NOT-CONSUMED", d - 1, Len(Rec) >>, FALSE)

=============================================================================
