------------------------------ MODULE IpText -------------------------------
(***************************************************************************)
(* The textual forms of IP addresses and ports, as grammars.               *)
(*                                                                         *)
(*  IPv4: four `.`-separated decimal octets, 1-3 digits each, value at     *)
(*        most 255, no leading zero unless the octet is "0".               *)
(*  IPv6: RFC 4291 section 2.2 -- (1) eight `:`-separated groups of 1-4    *)
(*        hex digits; (2) one `::` standing for one or more zero groups;   *)
(*        (3) the last 32 bits optionally written as an IPv4 dotted quad.  *)
(*        No zone, no brackets, no prefix length.                          *)
(*  Port: plain decimal 0..65535, no sign, no leading zero.                *)
(*                                                                         *)
(* These definitions are the oracle for C01 / C08 / C12.  They are         *)
(* cross-validated against the standard library's parser (which the crate  *)
(* delegates to) by the `iptext` traces; a disagreement is a defect of     *)
(* this module, reported as a tool error, never as a violation.            *)
(***************************************************************************)
EXTENDS Bytes

DOT   == 46
COLON == 58

HexVal(b) == IF b \in 48..57 THEN b - 48
             ELSE IF b \in 97..102 THEN b - 87
             ELSE IF b \in 65..70 THEN b - 55
             ELSE 16

IsHex(b) == HexVal(b) < 16

(* ---- IPv4 ---- *)
OctetOk(s) == /\ Len(s) \in 1..3
              /\ IsDigits(s)
              /\ (s[1] # 48 \/ Len(s) = 1)
              /\ DecValue(s) <= 255

Ipv4Ok(s) == LET p == Split(s, {DOT}) IN Len(p) = 4 /\ \A i \in 1..4 : OctetOk(p[i])

(* the four octets; defined when Ipv4Ok(s) *)
Ipv4Val(s) == LET p == Split(s, {DOT}) IN [i \in 1..4 |-> DecValue(p[i])]

(* ---- IPv6 ---- *)
GroupOk(g) == Len(g) \in 1..4 /\ \A i \in 1..Len(g) : IsHex(g[i])

RECURSIVE HexFrom(_, _, _)
HexFrom(g, i, acc) == IF i > Len(g) THEN acc ELSE HexFrom(g, i + 1, acc * 16 + HexVal(g[i]))
GroupVal(g) == HexFrom(g, 1, 0)

(* one side of the address (all of it when there is no `::`): `:`-separated groups, the
   last of which may be a dotted quad when allowV4 *)
SideOk(t, allowV4) ==
    t = << >> \/
    LET p == Split(t, {COLON})
        n == Len(p)
    IN  /\ \A i \in 1..(n - 1) : GroupOk(p[i])
        /\ (GroupOk(p[n]) \/ (allowV4 /\ Ipv4Ok(p[n])))

SideGroups(t) ==
    IF t = << >> THEN << >>
    ELSE LET p == Split(t, {COLON})
             n == Len(p)
             last == IF GroupOk(p[n]) THEN << GroupVal(p[n]) >>
                     ELSE LET o == Ipv4Val(p[n]) IN << o[1] * 256 + o[2], o[3] * 256 + o[4] >>
         IN  [i \in 1..(n - 1) |-> GroupVal(p[i])] \o last

DoubleColons(s) == {i \in 1..(Len(s) - 1) : s[i] = COLON /\ s[i + 1] = COLON}

Ipv6Ok(s) ==
    LET dc == DoubleColons(s)
    IN  IF dc = {} THEN s # << >> /\ SideOk(s, TRUE) /\ Len(SideGroups(s)) = 8
        ELSE /\ Cardinality(dc) = 1
             /\ LET i == CHOOSE i \in dc : TRUE
                    left  == SubSeq(s, 1, i - 1)
                    right == SubSeq(s, i + 2, Len(s))
                IN  /\ SideOk(left, FALSE)
                    /\ SideOk(right, TRUE)
                    /\ Len(SideGroups(left)) + Len(SideGroups(right)) <= 7

(* the eight 16-bit groups; defined when Ipv6Ok(s) *)
Ipv6Val(s) ==
    LET dc == DoubleColons(s)
    IN  IF dc = {} THEN SideGroups(s)
        ELSE LET i == CHOOSE i \in dc : TRUE
                 l == SideGroups(SubSeq(s, 1, i - 1))
                 r == SideGroups(SubSeq(s, i + 2, Len(s)))
             IN  l \o [k \in 1..(8 - Len(l) - Len(r)) |-> 0] \o r

(* ---- ports ---- *)
PortOk(s) == /\ Len(s) \in 1..5
             /\ IsDigits(s)
             /\ (s[1] # 48 \/ Len(s) = 1)
             /\ DecValue(s) <= 65535

PortVal(s) == DecValue(s)

(***************************************************************************)
(* RFC 5952 canonical text (what `Display` of the standard library         *)
(* prints).  Informative: used for model-level round trips and drift       *)
(* notes, never for a verdict.                                             *)
(***************************************************************************)
HexDigit(d) == IF d < 10 THEN 48 + d ELSE 87 + d

GroupText(g) ==
    LET d1 == g \div 4096
        d2 == (g \div 256) % 16
        d3 == (g \div 16) % 16
        d4 == g % 16
    IN  IF d1 # 0 THEN << HexDigit(d1), HexDigit(d2), HexDigit(d3), HexDigit(d4) >>
        ELSE IF d2 # 0 THEN << HexDigit(d2), HexDigit(d3), HexDigit(d4) >>
        ELSE IF d3 # 0 THEN << HexDigit(d3), HexDigit(d4) >>
        ELSE << HexDigit(d4) >>

DecText(n) ==
    IF n >= 10000 THEN << 48 + n \div 10000, 48 + ((n \div 1000) % 10), 48 + ((n \div 100) % 10), 48 + ((n \div 10) % 10), 48 + (n % 10) >>
    ELSE IF n >= 1000 THEN << 48 + n \div 1000, 48 + ((n \div 100) % 10), 48 + ((n \div 10) % 10), 48 + (n % 10) >>
    ELSE IF n >= 100 THEN << 48 + n \div 100, 48 + ((n \div 10) % 10), 48 + (n % 10) >>
    ELSE IF n >= 10 THEN << 48 + n \div 10, 48 + (n % 10) >>
    ELSE << 48 + n >>

Ipv4Text(o) == DecText(o[1]) \o << DOT >> \o DecText(o[2]) \o << DOT >> \o DecText(o[3]) \o << DOT >> \o DecText(o[4])

RECURSIVE JoinGroups(_)
JoinGroups(gs) ==
    IF gs = << >> THEN << >>
    ELSE IF Len(gs) = 1 THEN GroupText(gs[1])
    ELSE GroupText(gs[1]) \o << COLON >> \o JoinGroups(Tail(gs))

(* length of the zero run starting at group i *)
RECURSIVE ZeroRun(_, _)
ZeroRun(g, i) == IF i > 8 \/ g[i] # 0 THEN 0 ELSE 1 + ZeroRun(g, i + 1)

Ipv6Canonical(g) ==
    LET best == CHOOSE i \in 1..8 : \A j \in 1..8 :
                    ZeroRun(g, i) > ZeroRun(g, j) \/ (ZeroRun(g, i) = ZeroRun(g, j) /\ i <= j)
        run == ZeroRun(g, best)
    IN  IF (\A i \in 1..5 : g[i] = 0) /\ g[6] = 65535
        THEN << COLON, COLON, 102, 102, 102, 102, COLON >> \o Ipv4Text(<< g[7] \div 256, g[7] % 256, g[8] \div 256, g[8] % 256 >>)
        ELSE IF run < 2 THEN JoinGroups(g)
        ELSE JoinGroups(SubSeq(g, 1, best - 1)) \o << COLON, COLON >> \o JoinGroups(SubSeq(g, best + run, 8))

=============================================================================
