------------------------------- MODULE Stream ------------------------------
(***************************************************************************)
(* The streaming receiver: the loop of examples/server.rs, which the       *)
(* `PartialResult` trait exists for.  It appends what it reads to a buffer *)
(* and re-parses the whole buffer through an entry point after each read.  *)
(*                                                                         *)
(*   buf      bytes received so far                                        *)
(*   verdict  the outcome of every entry point on buf:                     *)
(*            v1b  v1::Header::try_from(&[u8])                             *)
(*            v1s  v1::Header::try_from(&str)      ("na" if buf is not     *)
(*            v1fh <v1::Header as FromStr>          valid UTF-8: a &str    *)
(*            v1fa <v1::Addresses as FromStr>       cannot carry it)       *)
(*            v2   v2::Header::try_from(&[u8])                             *)
(*            auto HeaderResult::parse                                     *)
(*   hist     what the properties need to remember about earlier states    *)
(*                                                                         *)
(* `Recv(chunk, v)` takes the new verdicts as a parameter: the bounded     *)
(* models compute them with the implementation-shaped parsers, trace       *)
(* validation takes them from what the real crate returned.  The property  *)
(* predicates below are shared by both; each returns the set of clauses    *)
(* that FAIL in the given state (empty = the property holds there).        *)
(***************************************************************************)
EXTENDS Bytes, TLC

V1 == INSTANCE V1
V2 == INSTANCE V2
TlvM == INSTANCE TlvWalk

VARIABLES buf, verdict, hist

svars == << buf, verdict, hist >>

EntryPoints == {"v1b", "v1s", "v1fh", "v1fa", "v2", "auto"}
TextEntries == {"v1s", "v1fh", "v1fa"}
V1Entries   == {"v1b", "v1s", "v1fh", "v1fa"}
HeaderEntries == {"v1b", "v1s", "v2", "auto"}      \* entries that report header bytes

None == [k |-> "none"]

IsOk(o)    == o.k = "ok"
IsErr(o)   == o.k = "err"
IsPanic(o) == o.k = "panic"
IsNa(o)    == o.k = "na"
HasFlags(o) == o.k \in {"ok", "err"}
Incomplete(o) == HasFlags(o) /\ o.inc

(* bytes of the header an ok outcome of entry e reports *)
HeaderBytes(e, o) ==
    CASE e \in {"v1b", "v1s", "v1fh"} -> o.hdr
      [] e = "v2" -> Flat(o.raw)
      [] e = "auto" -> (IF o.tag = "V1" THEN o.r.hdr ELSE Flat(o.r.raw))
      [] OTHER -> << >>

(***************************************************************************)
(* State machine                                                           *)
(***************************************************************************)
Hist0 == [firstOk  |-> [e \in EntryPoints |-> None],
          notInc   |-> [e \in EntryPoints |-> {}],     \* buffer lengths at which e was not incomplete
          seen     |-> {},                             \* buffer lengths visited
          prevV2   |-> None,                           \* v2 verdict of the previous state
          prevLen  |-> 0]

Init == buf = << >> /\ verdict = [e \in EntryPoints |-> None] /\ hist = Hist0

NextHist(h, b, v) ==
    [firstOk |-> [e \in EntryPoints |-> IF h.firstOk[e].k = "none" /\ IsOk(v[e]) THEN v[e] ELSE h.firstOk[e]],
     notInc  |-> [e \in EntryPoints |-> IF IsNa(v[e]) \/ Incomplete(v[e]) THEN h.notInc[e] ELSE h.notInc[e] \cup {Len(b)}],
     seen    |-> h.seen \cup {Len(b)},
     prevV2  |-> v["v2"],
     prevLen |-> Len(b)]

(* hist' describes the states up to and including the new one, except prevV2/prevLen/firstOk
   which the action properties read BEFORE the update (they are passed the old hist) *)
Recv(chunk, v) ==
    /\ buf' = buf \o chunk
    /\ verdict' = v
    /\ hist' = NextHist(hist, buf \o chunk, v)

Reset == buf' = << >> /\ verdict' = [e \in EntryPoints |-> None] /\ hist' = Hist0

(* The receiver takes the accepted header off the front of its buffer - n bytes, the length the
   header reports - and goes on with what follows it: the next header of a pipelined peer, or the
   application's bytes.  A new epoch: the history starts again with the remainder. *)
Consume(n, v) ==
    /\ buf' = SubSeq(buf, n + 1, Len(buf))
    /\ verdict' = v
    /\ hist' = NextHist(Hist0, SubSeq(buf, n + 1, Len(buf)), v)

(* how many bytes the header at the front of b occupies (0: there is none) *)
HeaderLenSpec(b) == IF V2!WellFormed(b) THEN 16 + V2!Declared(b) ELSE V1!AcceptedLen(b)

(***************************************************************************)
(* Property predicates.  b = buffer, v = verdicts on b, h = history of     *)
(* the states BEFORE b.  Each returns the set of failing clause names.     *)
(***************************************************************************)
Applicable(v, e) == ~IsNa(v[e]) /\ v[e].k # "none"

(* ---- C01: v1 accepts exactly the well-formed lines, decodes faithfully ---- *)
C01_Fails(b, v) ==
    LET acc == V1!AcceptedLen(b)
        line == SubSeq(b, 1, acc)
        d == V1!Decode(line)
        one(e) ==
            LET o == v[e]
            IN  IF ~Applicable(v, e) THEN {}
                ELSE IF IsOk(o) # (acc > 0) THEN {<< "C01", "accepts-iff-wellformed", e >>}
                ELSE IF ~IsOk(o) THEN {}
                ELSE (IF e # "v1fa" /\ o.hdr # line THEN {<< "C01", "header-text", e >>} ELSE {})
                     \cup (IF o.proto # d.proto \/ o.sa # d.sa \/ o.da # d.da \/ o.sp # d.sp \/ o.dp # d.dp
                           THEN {<< "C01", "decode", e >>} ELSE {})
    IN  UNION {one(e) : e \in V1Entries}

C01_Nontrivial(b, v) == V1!FirstCR(b) > 0 /\ Applicable(v, "v1b")

(* ---- C02: v2 accepts exactly the well-formed headers, decodes faithfully ---- *)
SameAddr(o, d) ==
    /\ o.k = d.k
    /\ (d.k \in {"IPv4", "IPv6"} => o.sa = d.sa /\ o.da = d.da /\ o.sp = d.sp /\ o.dp = d.dp)
    /\ (d.k = "Unix" => Flat(o.src) = d.src /\ Flat(o.dst) = d.dst)

C02_Fails(b, v) ==
    LET o == v["v2"]
        wf == V2!WellFormed(b)
    IN  IF ~Applicable(v, "v2") THEN {}
        ELSE IF IsOk(o) # wf THEN {<< "C02", "accepts-iff-wellformed", "v2" >>}
        ELSE IF ~wf THEN {}
        ELSE LET d == V2!Decode(b)
             IN  (IF o.cmd # d.cmd \/ o.tr # d.tr \/ o.ver # "Two" THEN {<< "C02", "control", "v2" >>} ELSE {})
                 \cup (IF ~SameAddr(o.addr, d.addr) THEN {<< "C02", "addresses", "v2" >>} ELSE {})
                 \cup (IF Flat(o.raw) # d.raw THEN {<< "C02", "header-bytes", "v2" >>} ELSE {})

C02_Nontrivial(b, v) == Len(b) >= 16 /\ SubSeq(b, 1, 12) = V2!Signature

(* ---- C03: nothing panics, iteration is bounded ---- *)
ViewPanics(o) ==
    IF ~IsOk(o) THEN FALSE
    ELSE \/ o.vw.protocol.k = "panic" \/ o.vw.astr.k = "panic" \/ o.vw.disp.k = "panic" \/ o.vw.adisp.k = "panic"
         \/ ~o.vw.dbg_ok
         \/ o.own.protocol.k = "panic" \/ o.own.astr.k = "panic" \/ o.own.disp.k = "panic" \/ o.own.adisp.k = "panic"

C03_Fails(b, v) ==
    LET p(e) == IF v[e].k = "panic" THEN {<< "C03", "panic", e >>}
                (* Display with every precision / width / flag, Debug plain and pretty, of the error value *)
                ELSE IF IsErr(v[e]) /\ "fmt_ok" \in DOMAIN v[e] /\ ~v[e].fmt_ok THEN {<< "C03", "formatting-an-error-panics", e >>}
                ELSE IF e = "auto" /\ IsErr(v[e]) /\ "fmt_ok" \in DOMAIN v[e].r /\ ~v[e].r.fmt_ok THEN {<< "C03", "formatting-an-error-panics", e >>}
                ELSE {}
        vw(e) == IF Applicable(v, e) /\ ViewPanics(v[e]) THEN {<< "C03", "view-panic", e >>} ELSE {}
        v2vw == IF Applicable(v, "v2") /\ IsOk(v["v2"]) /\ (v["v2"].vw.k # "ok" \/ v["v2"].own.k # "ok")
                THEN {<< "C03", "view-panic", "v2" >>} ELSE {}
        walk == IF Applicable(v, "v2") /\ IsOk(v["v2"]) /\ v["v2"].vw.k = "ok"
                   /\ (v["v2"].vw.walk.hit_bound
                       \/ (\E i \in 1..Len(v["v2"].vw.walk.items) : v["v2"].vw.walk.items[i].k = "panic")
                       \/ v["v2"].vw.walk.n - 3 > RlLen(v["v2"].vw.tb) \div 3 + 1)
                THEN {<< "C03", "tlv-iteration", "v2" >>} ELSE {}
    IN  UNION {p(e) : e \in EntryPoints} \cup vw("v1b") \cup vw("v1s") \cup v2vw \cup walk

(* ---- C04: an accepted header never depends on what follows it ---- *)
C04_Fails(b, v, h) ==
    LET one(e) ==
            LET o == v[e]
                f == h.firstOk[e]
            IN  IF ~Applicable(v, e) THEN {}
                ELSE (IF f.k = "ok" /\ o # f THEN {<< "C04", "result-changed-by-later-bytes", e >>} ELSE {})
                     \cup (IF IsOk(o) /\ ~StartsWith(b, HeaderBytes(e, o)) THEN {<< "C04", "header-not-prefix", e >>} ELSE {})
        len1(e) == IF Applicable(v, e) /\ IsOk(v[e]) /\ Len(v[e].hdr) # V1!FirstCR(b) + 1
                   THEN {<< "C04", "v1-length", e >>} ELSE {}
        len2 == IF Applicable(v, "v2") /\ IsOk(v["v2"]) /\ Len(b) >= 16 /\ RlLen(v["v2"].raw) # 16 + V2!Declared(b)
                THEN {<< "C04", "v2-length", "v2" >>} ELSE {}
    IN  UNION {one(e) : e \in HeaderEntries} \cup len1("v1b") \cup len1("v1s") \cup len2

C04_Nontrivial(b, v, h) == \E e \in HeaderEntries : h.firstOk[e].k = "ok"

(* "the number of bytes a caller must remove from its buffer is exactly the length of the
   reported header": n is what the accepted header's length accessor returned *)
C04_ConsumeFails(b, n) ==
    LET exp == HeaderLenSpec(b)
    IN  IF exp = 0 THEN {}                      \* accepted although not well-formed: C01 / C02 / C06 report that
        ELSE IF n # exp THEN {<< "C04", "bytes-to-remove-differ-from-header-length", "auto" >>}
        ELSE {}

(* the reported header on its own is accepted with the identical result *)
C04_ReparseFails(e, input, r, h) ==
    LET f == h.firstOk[e]
    IN  IF f.k # "ok" THEN {<< "C04", "reparse-without-accept", e >>}
        ELSE (IF input # HeaderBytes(e, f) THEN {<< "C04", "reparse-input", e >>} ELSE {})
             \cup (IF r # f THEN {<< "C04", "header-alone-differs", e >>} ELSE {})

(* ---- C05: every proper prefix of an accepted header is incomplete ---- *)
(* the flags of the result, of the error value it carries (einc / ecmp), of the error wrapped
   inside a byte-entry-point error (iinc / icmp) and of the result inside an auto-detection result *)
ErrFlagFails(o, e) ==
    IF ~IsErr(o) THEN {}
    ELSE (IF o.ecmp = o.einc \/ o.einc # o.inc THEN {<< "C05", "is_complete-not-negation-on-error-value", e >>} ELSE {})
         \cup (IF "iinc" \in DOMAIN o /\ (o.icmp = o.iinc \/ o.iinc # o.inc) THEN {<< "C05", "is_complete-not-negation-on-inner-error", e >>} ELSE {})

FlagFails(v) ==
    LET one(e) ==
            LET o == v[e]
            IN  IF ~HasFlags(o) THEN {}
                ELSE (IF o.cmp = o.inc THEN {<< "C05", "is_complete-not-negation", e >>} ELSE {})
                     \cup (IF IsOk(o) /\ o.inc THEN {<< "C05", "success-flagged-incomplete", e >>} ELSE {})
                     \cup (IF e = "auto" THEN (IF o.r.cmp = o.r.inc \/ o.r.inc # o.inc THEN {<< "C05", "is_complete-not-negation-on-inner-result", e >>} ELSE {})
                                             \cup ErrFlagFails(o.r, e)
                           ELSE ErrFlagFails(o, e))
    IN  UNION {one(e) : e \in EntryPoints}

C05_Fails(b, v, h) ==
    LET one(e) ==
            LET o == v[e]
            IN  IF ~Applicable(v, e) \/ ~IsOk(o) THEN {}
                ELSE LET hb == IF e = "v1fa" THEN SubSeq(b, 1, V1!AcceptedLen(b)) ELSE HeaderBytes(e, o)
                         n == Len(hb)
                         v1like == e \in V1Entries \/ (e = "auto" /\ o.tag = "V1")
                         first == h.firstOk[e].k = "none" \/ (e # "v1fa" /\ HeaderBytes(e, h.firstOk[e]) # hb)
                     IN  IF ~first \/ (v1like /\ ~IsAscii(hb)) THEN {}
                         ELSE IF \E m \in h.notInc[e] : m < n THEN {<< "C05", "prefix-not-incomplete", e >>}
                         ELSE {}
    IN  FlagFails(v) \cup UNION {one(e) : e \in EntryPoints}

(* number of proper prefixes of the accepted header this session visited *)
C05_Nontrivial(b, v, h) ==
    \E e \in HeaderEntries : Applicable(v, e) /\ IsOk(v[e]) /\ h.firstOk[e].k = "none"
                             /\ \E m \in h.seen : m < Len(HeaderBytes(e, v[e]))

(* ---- C06: auto-detection agrees with the two dedicated parsers ---- *)
SameV1(a, o) ==
    /\ a.k = o.k
    /\ (o.k = "ok" => a.hdr = o.hdr /\ a.proto = o.proto /\ a.sa = o.sa /\ a.da = o.da /\ a.sp = o.sp /\ a.dp = o.dp)
    /\ (o.k = "err" => a.e = o.e /\ a.w = o.w /\ a.dbg = o.dbg)

SameV2(a, o) ==
    /\ a.k = o.k
    /\ (o.k = "ok" => a.cmd = o.cmd /\ a.tr = o.tr /\ a.ver = o.ver /\ a.addr = o.addr /\ a.raw = o.raw)
    /\ (o.k = "err" => a.e = o.e /\ a.a = o.a /\ a.b = o.b)

C06_Fails(b, v) ==
    LET a == v["auto"]
        one == v["v1b"]
        two == v["v2"]
    IN  IF a.k \in {"panic", "none"} \/ one.k \in {"panic", "none"} \/ two.k \in {"panic", "none"} THEN {}
        ELSE (IF IsOk(a) # (IsOk(one) \/ IsOk(two)) THEN {<< "C06", "accepts-iff-either", "auto" >>} ELSE {})
             \cup (IF IsOk(one) /\ IsOk(two) THEN {<< "C06", "both-accept", "auto" >>} ELSE {})
             \cup (IF IsOk(a) /\ IsOk(two) /\ ~(a.tag = "V2" /\ SameV2(a.r, two)) THEN {<< "C06", "v2-header-unchanged", "auto" >>} ELSE {})
             \cup (IF IsOk(a) /\ ~IsOk(two) /\ IsOk(one) /\ ~(a.tag = "V1" /\ SameV1(a.r, one)) THEN {<< "C06", "v1-header-unchanged", "auto" >>} ELSE {})
             \cup (IF a.inc # (two.inc \/ (IsErr(two) /\ ~two.inc /\ one.inc)) THEN {<< "C06", "incomplete-iff", "auto" >>} ELSE {})
             \cup (IF two.inc /\ a.tag # "V2" THEN {<< "C06", "possible-v2-handed-to-text-parser", "auto" >>} ELSE {})

C06_Nontrivial(b, v) == Len(b) > 0

(***************************************************************************)
(* C12 on tagged sessions: the tag names a base line / header, the element *)
(* replaced and the replacement.  The specification re-derives the         *)
(* corrupted input and whether it qualifies; nothing is trusted.           *)
(***************************************************************************)
C12v1(tag, b, v) ==
    LET base == tag.base
        elem == tag.elem
        repl == tag.repl
        qualifies == V1!AcceptedLen(base) = Len(base) /\ Len(base) > 0 /\ V1!InvalidFor(base, elem, repl)
        corrupted == V1!Corrupted(base, elem, repl)
        (* a replacement that also pushes the line past 107 bytes may be blamed on the limit *)
        kinds == {V1!KindFor(elem)} \cup (IF Len(corrupted) > V1!MaxLen THEN {"HeaderTooLong"} ELSE {})
        (* a multi-byte character after the CR: the byte entry point cuts inside it and may say so *)
        kindsOf(e) == kinds \cup (IF elem = "lf" /\ Len(repl) > 1 /\ e \in {"v1b", "auto"} THEN {"InvalidUtf8"} ELSE {})
        check(e) ==
            LET o == v[e]
            IN  IF ~Applicable(v, e) THEN {}
                ELSE IF o.k = "panic" THEN {}
                ELSE IF IsOk(o) THEN {<< "C12", "corrupted-line-accepted", e >>}
                ELSE IF o.inc THEN {<< "C12", "not-terminal", e >>}
                ELSE IF o.e \notin kindsOf(e) THEN {<< "C12", "wrong-kind", e >>}
                ELSE {}
        autoCheck ==
            LET o == v["auto"]
            IN  IF o.k = "panic" THEN {}
                ELSE IF IsOk(o) THEN {<< "C12", "corrupted-line-accepted", "auto" >>}
                ELSE IF o.inc THEN {<< "C12", "not-terminal", "auto" >>}
                ELSE IF o.tag # "V1" \/ o.r.e \notin kindsOf("auto") THEN {<< "C12", "wrong-kind", "auto" >>}
                ELSE {}
    IN  IF ~qualifies \/ Len(b) # Len(corrupted) THEN [f |-> {}, nt |-> FALSE]
        ELSE IF b # corrupted THEN [f |-> {<< "BIND", "c12-input-is-not-the-corruption", "v1b" >>}, nt |-> FALSE]
        ELSE [f |-> check("v1b") \cup (IF elem = "utf8" THEN {} ELSE check("v1s") \cup check("v1fh") \cup check("v1fa")) \cup autoCheck,
              nt |-> TRUE]

C12v2(tag, b, v) ==
    LET base == Flat(tag.base)
        elem == tag.elem
        val == tag.val
        idx == tag.idx
        wf == V2!WellFormed(base) /\ Len(base) = V2!HeaderLen(base)
        fam == V2!Hi(base[14])
        invalid ==
            CASE elem = "sig" -> idx \in 1..12 /\ val \in 0..255 /\ val # base[idx]
              [] elem = "version" -> val \in 0..15 /\ val # 2
              [] elem = "command" -> val \in 2..15
              [] elem = "family" -> val \in 4..15
              [] elem = "transport" -> val \in 3..15
              [] elem = "length" -> val < V2!FamilySize(fam)
              [] OTHER -> FALSE
        corrupted ==
            CASE elem = "sig" -> [base EXCEPT ![idx] = val]
              [] elem = "version" -> [base EXCEPT ![13] = val * 16 + V2!Lo(base[13])]
              [] elem = "command" -> [base EXCEPT ![13] = V2!Hi(base[13]) * 16 + val]
              [] elem = "family" -> [base EXCEPT ![14] = val * 16 + V2!Lo(base[14])]
              [] elem = "transport" -> [base EXCEPT ![14] = V2!Hi(base[14]) * 16 + val]
              [] OTHER -> [base EXCEPT ![15] = val \div 256, ![16] = val % 256]
        expected ==
            CASE elem = "sig" -> [e |-> "Prefix", a |-> 0, b |-> 0]
              [] elem = "version" -> [e |-> "Version", a |-> val * 16, b |-> 0]
              [] elem = "command" -> [e |-> "Command", a |-> val, b |-> 0]
              [] elem = "family" -> [e |-> "AddressFamily", a |-> val * 16, b |-> 0]
              [] elem = "transport" -> [e |-> "Protocol", a |-> val, b |-> 0]
              [] OTHER -> [e |-> "InvalidAddresses", a |-> val, b |-> V2!FamilySize(fam)]
        o == v["v2"]
        two == IF o.k = "panic" THEN {}
               ELSE IF IsOk(o) THEN {<< "C12", "corrupted-header-accepted", "v2" >>}
               ELSE IF o.inc THEN {<< "C12", "not-terminal", "v2" >>}
               ELSE IF o.e # expected.e \/ o.a # expected.a \/ o.b # expected.b THEN {<< "C12", "wrong-kind-or-payload", "v2" >>}
               ELSE {}
        a == v["auto"]
        auto == IF a.k = "panic" THEN {}
                ELSE IF IsOk(a) THEN {<< "C12", "corrupted-header-accepted", "auto" >>}
                ELSE IF a.inc THEN {<< "C12", "not-terminal", "auto" >>}
                ELSE {}
    IN  IF ~(wf /\ invalid) \/ Len(b) # Len(base) THEN [f |-> {}, nt |-> FALSE]
        ELSE IF b # corrupted THEN [f |-> {<< "BIND", "c12-input-is-not-the-corruption", "v2" >>}, nt |-> FALSE]
        ELSE [f |-> two \cup auto, nt |-> TRUE]

C12_Eval(tag, b, v) ==
    IF tag.g = "c12v1" THEN C12v1(tag, b, v)
    ELSE IF tag.g = "c12v2" THEN C12v2(tag, b, v)
    ELSE [f |-> {}, nt |-> FALSE]


(* ---- C14: v2 views partition the header consistently ---- *)
ViewFails(o, w, which) ==
    LET raw == Flat(o.raw)
        ab == Flat(w.ab)
        tb == Flat(w.tb)
        fam == V2!Hi(raw[14])
    IN  (IF ab \o tb # SubSeq(raw, 17, Len(raw)) \/ Flat(w.raw) # raw THEN {<< "C14", "partition", which >>} ELSE {})
        \cup (IF Len(ab) # (IF fam = 0 THEN Len(raw) - 16 ELSE V2!FamilySize(fam)) THEN {<< "C14", "address-view-size", which >>} ELSE {})
        \cup (IF w.length + 16 # w.len \/ w.len # Len(raw) \/ w.length # V2!Declared(raw) \/ w.is_empty THEN {<< "C14", "lengths", which >>} ELSE {})
        \cup (IF w.af # V2!FamilyName(fam) \/ w.af # o.addr.k THEN {<< "C14", "family", which >>} ELSE {})
        \cup (IF fam # 0 /\ ~SameAddr(o.addr, V2!DecodeAddresses(fam, ab)) THEN {<< "C14", "address-decoding", which >>} ELSE {})

C14_Fails(b, v) ==
    LET o == v["v2"]
    IN  IF ~Applicable(v, "v2") \/ ~IsOk(o) THEN {}
        ELSE (IF o.vw.k = "ok" THEN ViewFails(o, o.vw, "borrowed") ELSE {})
             \cup (IF o.own.k = "ok" THEN ViewFails([o EXCEPT !.addr = o.own.addr], o.own, "owned") ELSE {})

C14_Nontrivial(b, v) == Applicable(v, "v2") /\ IsOk(v["v2"])

(* ---- C08 (second sentence): a parsed header formats back to the text it was parsed from ---- *)
C08_StreamFails(b, v) ==
    LET one(e) ==
            LET o == v[e]
            IN  IF ~Applicable(v, e) \/ ~IsOk(o) \/ o.vw.disp.k # "ok" THEN {}
                ELSE IF o.vw.disp.v # o.hdr THEN {<< "C08", "parsed-header-formats-to-different-text", e >>}
                ELSE {}
    IN  one("v1b") \cup one("v1s")

(* ---- C15: v1 views reconstruct the header text ---- *)
C15_Fails(b, v) ==
    LET one(e) ==
            LET o == v[e]
            IN  IF ~Applicable(v, e) \/ ~IsOk(o) THEN {}
                ELSE IF o.vw.protocol.k # "ok" \/ o.vw.astr.k # "ok" \/ o.vw.disp.k # "ok" THEN {<< "C15", "view-unavailable", e >>}
                ELSE LET hdr == o.hdr
                         proto == o.vw.protocol.v
                         astr == o.vw.astr.v
                         f == Split(SubSeq(hdr, 1, Len(hdr) - 2), {V1!SP})
                         sep == IF Len(hdr) > 6 + Len(proto) /\ hdr[7 + Len(proto)] = V1!SP THEN << V1!SP >> ELSE << >>
                     IN  (IF Len(f) < 2 \/ proto # f[2] \/ proto # V1!ProtoText(o.proto) THEN {<< "C15", "protocol-keyword", e >>} ELSE {})
                         \cup (IF V1!PROXY \o << V1!SP >> \o proto \o sep \o astr \o V1!CRLF # hdr THEN {<< "C15", "reassembly", e >>} ELSE {})
                         \cup (IF sep = << >> /\ astr # << >> THEN {<< "C15", "address-text-without-separator", e >>} ELSE {})
                         \cup (IF o.vw.disp.v # hdr THEN {<< "C15", "display", e >>} ELSE {})
    IN  one("v1b") \cup one("v1s")

C15_Nontrivial(b, v) == Applicable(v, "v1b") /\ IsOk(v["v1b"])

(* ---- C16: entry points agree; owned copies equal their originals ---- *)
Unwrapped(o) == o   \* v1b errors carry w = "Parse" around the same inner error

AgreeV1(x, y, withHdr) ==
    /\ x.k = y.k
    /\ (x.k = "ok" => (withHdr => x.hdr = y.hdr) /\ x.proto = y.proto /\ x.sa = y.sa /\ x.da = y.da /\ x.sp = y.sp /\ x.dp = y.dp)
    /\ (x.k = "err" => x.e = y.e /\ x.dbg = y.dbg /\ x.inc = y.inc)

OwnedV1Fails(o, e) ==
    IF ~IsOk(o) THEN {}
    ELSE IF ~o.own.eq \/ o.own.hdr # o.vw.hdr \/ o.own.protocol # o.vw.protocol \/ o.own.astr # o.vw.astr
            \/ o.own.disp # o.vw.disp \/ o.own.adisp # o.vw.adisp
         THEN {<< "C16", "owned-copy-differs", e >>} ELSE {}

OwnedV2Fails(o) ==
    IF ~IsOk(o) THEN {}
    ELSE IF o.vw.k # "ok" \/ o.own.k # "ok" THEN {}
    ELSE LET w == o.vw  c == o.own
         IN  IF ~c.eq \/ c.raw # w.raw \/ c.ab # w.ab \/ c.tb # w.tb \/ c.length # w.length \/ c.len # w.len
                \/ c.af # w.af \/ c.walk # w.walk \/ c.addr # o.addr \/ c.disp # w.disp
             THEN {<< "C16", "owned-copy-differs", "v2" >>} ELSE {}

OwnedItemsFail(items) ==
    IF \E i \in 1..Len(items) : items[i].k = "ok" /\ (~items[i].own_eq \/ items[i].own_t # items[i].t \/ items[i].own_v # items[i].v)
    THEN {<< "C16", "owned-tlv-differs", "v2" >>} ELSE {}

C16_Fails(b, v) ==
    LET wl == V1!WindowLen(b)
        text == ~IsNa(v["v1s"]) /\ v["v1s"].k # "none"
        onBoundary == Utf8Boundary(b, wl)
        s == v["v1s"]
        agree ==
            IF ~text THEN {}
            ELSE IF \E e \in V1Entries : v[e].k = "panic" THEN {<< "C16", "entry-point-panicked", "v1s" >>}
            ELSE IF onBoundary
                 THEN (IF ~AgreeV1(v["v1b"], s, TRUE) THEN {<< "C16", "bytes-vs-text", "v1b" >>} ELSE {})
                      \cup (IF ~AgreeV1(v["v1fh"], s, TRUE) THEN {<< "C16", "fromstr-header-vs-text", "v1fh" >>} ELSE {})
                      \cup (IF ~AgreeV1(v["v1fa"], s, FALSE) THEN {<< "C16", "fromstr-addresses-vs-text", "v1fa" >>} ELSE {})
                 ELSE (IF \E e \in V1Entries : ~IsErr(v[e]) THEN {<< "C16", "mid-character-window-not-an-error", "v1s" >>} ELSE {})
        owned ==
            (IF Applicable(v, "v1b") THEN OwnedV1Fails(v["v1b"], "v1b") ELSE {})
            \cup (IF Applicable(v, "v1s") THEN OwnedV1Fails(v["v1s"], "v1s") ELSE {})
            \cup (IF Applicable(v, "v2") THEN OwnedV2Fails(v["v2"]) ELSE {})
            \cup (IF Applicable(v, "v2") /\ IsOk(v["v2"]) /\ v["v2"].vw.k = "ok" THEN OwnedItemsFail(v["v2"].vw.walk.items) ELSE {})
    IN  agree \cup owned

C16_Nontrivial(b, v) == ~IsNa(v["v1s"]) /\ v["v1s"].k # "none" /\ Len(b) > 0

(* ---- C17: v2 incomplete errors carry exact counts ---- *)
C17_Fails(b, v, h, chunkLen) ==
    LET o == v["v2"]
        p == h.prevV2
        now ==
            IF ~IsErr(o) THEN {}
            ELSE IF o.e = "Incomplete" THEN (IF o.a # Len(b) \/ Len(b) >= 16 THEN {<< "C17", "incomplete-count", "v2" >>} ELSE {})
            ELSE IF o.e = "Partial" THEN (IF Len(b) < 16 \/ o.a # Len(b) - 16 \/ o.b # V2!Declared(b) \/ o.a >= o.b THEN {<< "C17", "partial-counts", "v2" >>} ELSE {})
            ELSE {}
        step ==
            IF p.k = "err" /\ p.e = "Partial" /\ h.prevLen = Len(b) - chunkLen
            THEN LET missing == p.b - p.a
                 IN  IF chunkLen = missing THEN (IF ~IsOk(o) THEN {<< "C17", "missing-bytes-supplied-not-ok", "v2" >>} ELSE {})
                     ELSE IF chunkLen < missing
                          THEN (IF ~(IsErr(o) /\ o.e = "Partial" /\ o.a = p.a + chunkLen /\ o.b = p.b) THEN {<< "C17", "fewer-bytes-counts-not-updated", "v2" >>} ELSE {})
                     ELSE {}
            ELSE {}
    IN  IF ~Applicable(v, "v2") THEN {} ELSE now \cup step

C17_Nontrivial(b, v) == Applicable(v, "v2") /\ IsErr(v["v2"]) /\ v["v2"].e \in {"Incomplete", "Partial"}

(* ---- C18: the v1 verdict is final once the line break or 107 bytes were seen ---- *)
C18_Fails(b, v) ==
    LET one(e) == IF Applicable(v, e) /\ HasFlags(v[e]) /\ ~v[e].cmp THEN {<< "C18", "final-window-but-incomplete", e >>} ELSE {}
    IN  IF V1!FinalWindow(b) THEN UNION {one(e) : e \in V1Entries} ELSE {}

C18_Nontrivial(b, v) == V1!FinalWindow(b)

(* ---- C11 on the TLV section of an accepted header ---- *)
StripItem(i) == IF i.k = "ok" THEN [k |-> "ok", t |-> i.t, v |-> Flat(i.v)]
                ELSE IF i.k = "err" THEN [k |-> "err", e |-> i.e, a |-> i.a, b |-> i.b]
                ELSE [k |-> i.k]

(* C11 asks for "exactly one error item", which names the type and the declared length when a
   value overruns; which error kind it is, and what it carries when fewer than three bytes remain,
   is not part of the property (compared as model drift) *)
SameItem(obs, exp) ==
    /\ obs.k = exp.k
    /\ (exp.k = "ok" => obs.t = exp.t /\ obs.v = exp.v)
    /\ (exp.k = "err" /\ exp.e = "InvalidTLV" => obs.a = exp.a /\ obs.b = exp.b)

SameItemExactly(obs, exp) == SameItem(obs, exp) /\ (exp.k = "err" => obs.e = exp.e /\ obs.a = exp.a /\ obs.b = exp.b)

(* long walks are logged as their first 40 and last 5 items plus the total number of calls *)
CapItems(e) == IF Len(e) > 50 THEN SubSeq(e, 1, 40) \o SubSeq(e, Len(e) - 4, Len(e)) ELSE e

WalkFails(sec, walk, prop) ==
    IF walk.k # "ok" THEN {}
    ELSE LET items == [i \in 1..Len(walk.items) |-> StripItem(walk.items[i])]
             none == [k |-> "none"]
             full == TlvM!Walk(sec) \o << none, none, none >>
             exp == CapItems(full)
         IN  IF walk.hit_bound THEN {<< prop, "iteration-bound-hit", "v2" >>}
             ELSE IF walk.n # Len(full) \/ Len(items) # Len(exp) THEN {<< prop, "item-count", "v2" >>}
             ELSE IF \E i \in 1..Len(exp) : ~SameItem(items[i], exp[i]) THEN {<< prop, "item-differs", "v2" >>}
             ELSE IF \E i \in 1..Len(exp) : ~SameItemExactly(items[i], exp[i]) THEN {<< "DRIFT", "tlv-error-kind-or-payload", "v2" >>}
             ELSE {}

C11_Fails(b, v) ==
    LET o == v["v2"]
    IN  IF ~Applicable(v, "v2") \/ ~IsOk(o) \/ o.vw.k # "ok" THEN {}
        ELSE WalkFails(Flat(o.vw.tb), o.vw.walk, "C11")

=============================================================================
