---- MODULE Dbg_TTrace_1791137800 ----
EXTENDS Sequences, TLCExt, Toolbox, Dbg, Naturals, TLC

_expression ==
    LET Dbg_TEExpression == INSTANCE Dbg_TEExpression
    IN Dbg_TEExpression!expression
----

_trace ==
    LET Dbg_TETrace == INSTANCE Dbg_TETrace
    IN Dbg_TETrace!trace
----

_inv ==
    ~(
        TLCGet("level") = Len(_TETrace)
        /\
        buf = (<<80, 82, 79, 88, 89, 32, 13, 10>>)
        /\
        hist = ([firstOk |-> [auto |-> [k |-> "none"], v1b |-> [k |-> "none"], v1s |-> [k |-> "none"], v1fh |-> [k |-> "none"], v1fa |-> [k |-> "none"], v2 |-> [k |-> "none"]], notInc |-> [auto |-> {7, 8}, v1b |-> {7, 8}, v1s |-> {7, 8}, v1fh |-> {7, 8}, v1fa |-> {7, 8}, v2 |-> {1, 2, 3, 4, 5, 6, 7, 8}], seen |-> {0, 1, 2, 3, 4, 5, 6, 7, 8}, prevV2 |-> [k |-> "err", e |-> "Prefix", inc |-> FALSE, cmp |-> TRUE, a |-> 0, b |-> 0], prevLen |-> 8])
        /\
        hprev = ([firstOk |-> [auto |-> [k |-> "none"], v1b |-> [k |-> "none"], v1s |-> [k |-> "none"], v1fh |-> [k |-> "none"], v1fa |-> [k |-> "none"], v2 |-> [k |-> "none"]], notInc |-> [auto |-> {7}, v1b |-> {7}, v1s |-> {7}, v1fh |-> {7}, v1fa |-> {7}, v2 |-> {1, 2, 3, 4, 5, 6, 7}], seen |-> {0, 1, 2, 3, 4, 5, 6, 7}, prevV2 |-> [k |-> "err", e |-> "Prefix", inc |-> FALSE, cmp |-> TRUE, a |-> 0, b |-> 0], prevLen |-> 7])
        /\
        verdict = ([auto |-> [tag |-> "V1", k |-> "err", r |-> [k |-> "err", e |-> "InvalidProtocol", w |-> "Parse", inc |-> FALSE, cmp |-> TRUE, dbg |-> "InvalidProtocol"], inc |-> FALSE, cmp |-> TRUE], v1b |-> [k |-> "err", e |-> "InvalidProtocol", w |-> "Parse", inc |-> FALSE, cmp |-> TRUE, dbg |-> "InvalidProtocol"], v1s |-> [k |-> "err", e |-> "InvalidProtocol", w |-> "-", inc |-> FALSE, cmp |-> TRUE, dbg |-> "InvalidProtocol"], v1fh |-> [k |-> "err", e |-> "InvalidProtocol", w |-> "-", inc |-> FALSE, cmp |-> TRUE, dbg |-> "InvalidProtocol"], v1fa |-> [k |-> "err", e |-> "InvalidProtocol", w |-> "-", inc |-> FALSE, cmp |-> TRUE, dbg |-> "InvalidProtocol"], v2 |-> [k |-> "err", e |-> "Prefix", inc |-> FALSE, cmp |-> TRUE, a |-> 0, b |-> 0]])
        /\
        tag = ([base |-> <<80, 82, 79, 88, 89, 32, 85, 78, 75, 78, 79, 87, 78, 13, 10>>, elem |-> "proto", g |-> "c12v1", repl |-> <<>>])
        /\
        full = (<<80, 82, 79, 88, 89, 32, 13, 10>>)
    )
----

_init ==
    /\ tag = _TETrace[1].tag
    /\ hprev = _TETrace[1].hprev
    /\ buf = _TETrace[1].buf
    /\ verdict = _TETrace[1].verdict
    /\ hist = _TETrace[1].hist
    /\ full = _TETrace[1].full
----

_next ==
    /\ \E i,j \in DOMAIN _TETrace:
        /\ \/ /\ j = i + 1
              /\ i = TLCGet("level")
        /\ tag  = _TETrace[i].tag
        /\ tag' = _TETrace[j].tag
        /\ hprev  = _TETrace[i].hprev
        /\ hprev' = _TETrace[j].hprev
        /\ buf  = _TETrace[i].buf
        /\ buf' = _TETrace[j].buf
        /\ verdict  = _TETrace[i].verdict
        /\ verdict' = _TETrace[j].verdict
        /\ hist  = _TETrace[i].hist
        /\ hist' = _TETrace[j].hist
        /\ full  = _TETrace[i].full
        /\ full' = _TETrace[j].full

\* Uncomment the ASSUME below to write the states of the error trace
\* to the given file in Json format. Note that you can pass any tuple
\* to `JsonSerialize`. For example, a sub-sequence of _TETrace.
    \* ASSUME
    \*     LET J == INSTANCE Json
    \*         IN J!JsonSerialize("Dbg_TTrace_1791137800.json", _TETrace)

=============================================================================

 Note that you can extract this module `Dbg_TEExpression`
  to a dedicated file to reuse `expression` (the module in the 
  dedicated `Dbg_TEExpression.tla` file takes precedence 
  over the module `Dbg_TEExpression` below).

---- MODULE Dbg_TEExpression ----
EXTENDS Sequences, TLCExt, Toolbox, Dbg, Naturals, TLC

expression == 
    [
        \* To hide variables of the `Dbg` spec from the error trace,
        \* remove the variables below.  The trace will be written in the order
        \* of the fields of this record.
        tag |-> tag
        ,hprev |-> hprev
        ,buf |-> buf
        ,verdict |-> verdict
        ,hist |-> hist
        ,full |-> full
        
        \* Put additional constant-, state-, and action-level expressions here:
        \* ,_stateNumber |-> _TEPosition
        \* ,_tagUnchanged |-> tag = tag'
        
        \* Format the `tag` variable as Json value.
        \* ,_tagJson |->
        \*     LET J == INSTANCE Json
        \*     IN J!ToJson(tag)
        
        \* Lastly, you may build expressions over arbitrary sets of states by
        \* leveraging the _TETrace operator.  For example, this is how to
        \* count the number of times a spec variable changed up to the current
        \* state in the trace.
        \* ,_tagModCount |->
        \*     LET F[s \in DOMAIN _TETrace] ==
        \*         IF s = 1 THEN 0
        \*         ELSE IF _TETrace[s].tag # _TETrace[s-1].tag
        \*             THEN 1 + F[s-1] ELSE F[s-1]
        \*     IN F[_TEPosition - 1]
    ]

=============================================================================



Parsing and semantic processing can take forever if the trace below is long.
 In this case, it is advised to uncomment the module below to deserialize the
 trace from a generated binary file.

\*
\*---- MODULE Dbg_TETrace ----
\*EXTENDS IOUtils, Dbg, TLC
\*
\*trace == IODeserialize("Dbg_TTrace_1791137800.bin", TRUE)
\*
\*=============================================================================
\*

---- MODULE Dbg_TETrace ----
EXTENDS Dbg, TLC

trace == 
    <<
    ([buf |-> <<>>,hist |-> [firstOk |-> [auto |-> [k |-> "none"], v1b |-> [k |-> "none"], v1s |-> [k |-> "none"], v1fh |-> [k |-> "none"], v1fa |-> [k |-> "none"], v2 |-> [k |-> "none"]], notInc |-> [auto |-> {}, v1b |-> {}, v1s |-> {}, v1fh |-> {}, v1fa |-> {}, v2 |-> {}], seen |-> {0}, prevV2 |-> [k |-> "err", e |-> "Incomplete", inc |-> TRUE, cmp |-> FALSE, a |-> 0, b |-> 0], prevLen |-> 0],hprev |-> [firstOk |-> [auto |-> [k |-> "none"], v1b |-> [k |-> "none"], v1s |-> [k |-> "none"], v1fh |-> [k |-> "none"], v1fa |-> [k |-> "none"], v2 |-> [k |-> "none"]], notInc |-> [auto |-> {}, v1b |-> {}, v1s |-> {}, v1fh |-> {}, v1fa |-> {}, v2 |-> {}], seen |-> {}, prevV2 |-> [k |-> "none"], prevLen |-> 0],verdict |-> [auto |-> [tag |-> "V2", k |-> "err", r |-> [k |-> "err", e |-> "Incomplete", inc |-> TRUE, cmp |-> FALSE, a |-> 0, b |-> 0], inc |-> TRUE, cmp |-> FALSE], v1b |-> [k |-> "err", e |-> "MissingPrefix", w |-> "Parse", inc |-> TRUE, cmp |-> FALSE, dbg |-> "MissingPrefix"], v1s |-> [k |-> "err", e |-> "MissingPrefix", w |-> "-", inc |-> TRUE, cmp |-> FALSE, dbg |-> "MissingPrefix"], v1fh |-> [k |-> "err", e |-> "MissingPrefix", w |-> "-", inc |-> TRUE, cmp |-> FALSE, dbg |-> "MissingPrefix"], v1fa |-> [k |-> "err", e |-> "MissingPrefix", w |-> "-", inc |-> TRUE, cmp |-> FALSE, dbg |-> "MissingPrefix"], v2 |-> [k |-> "err", e |-> "Incomplete", inc |-> TRUE, cmp |-> FALSE, a |-> 0, b |-> 0]],tag |-> [base |-> <<80, 82, 79, 88, 89, 32, 85, 78, 75, 78, 79, 87, 78, 13, 10>>, elem |-> "proto", g |-> "c12v1", repl |-> <<>>],full |-> <<80, 82, 79, 88, 89, 32, 13, 10>>]),
    ([buf |-> <<80>>,hist |-> [firstOk |-> [auto |-> [k |-> "none"], v1b |-> [k |-> "none"], v1s |-> [k |-> "none"], v1fh |-> [k |-> "none"], v1fa |-> [k |-> "none"], v2 |-> [k |-> "none"]], notInc |-> [auto |-> {}, v1b |-> {}, v1s |-> {}, v1fh |-> {}, v1fa |-> {}, v2 |-> {1}], seen |-> {0, 1}, prevV2 |-> [k |-> "err", e |-> "Prefix", inc |-> FALSE, cmp |-> TRUE, a |-> 0, b |-> 0], prevLen |-> 1],hprev |-> [firstOk |-> [auto |-> [k |-> "none"], v1b |-> [k |-> "none"], v1s |-> [k |-> "none"], v1fh |-> [k |-> "none"], v1fa |-> [k |-> "none"], v2 |-> [k |-> "none"]], notInc |-> [auto |-> {}, v1b |-> {}, v1s |-> {}, v1fh |-> {}, v1fa |-> {}, v2 |-> {}], seen |-> {0}, prevV2 |-> [k |-> "err", e |-> "Incomplete", inc |-> TRUE, cmp |-> FALSE, a |-> 0, b |-> 0], prevLen |-> 0],verdict |-> [auto |-> [tag |-> "V1", k |-> "err", r |-> [k |-> "err", e |-> "Partial", w |-> "Parse", inc |-> TRUE, cmp |-> FALSE, dbg |-> "Partial"], inc |-> TRUE, cmp |-> FALSE], v1b |-> [k |-> "err", e |-> "Partial", w |-> "Parse", inc |-> TRUE, cmp |-> FALSE, dbg |-> "Partial"], v1s |-> [k |-> "err", e |-> "Partial", w |-> "-", inc |-> TRUE, cmp |-> FALSE, dbg |-> "Partial"], v1fh |-> [k |-> "err", e |-> "Partial", w |-> "-", inc |-> TRUE, cmp |-> FALSE, dbg |-> "Partial"], v1fa |-> [k |-> "err", e |-> "Partial", w |-> "-", inc |-> TRUE, cmp |-> FALSE, dbg |-> "Partial"], v2 |-> [k |-> "err", e |-> "Prefix", inc |-> FALSE, cmp |-> TRUE, a |-> 0, b |-> 0]],tag |-> [base |-> <<80, 82, 79, 88, 89, 32, 85, 78, 75, 78, 79, 87, 78, 13, 10>>, elem |-> "proto", g |-> "c12v1", repl |-> <<>>],full |-> <<80, 82, 79, 88, 89, 32, 13, 10>>]),
    ([buf |-> <<80, 82>>,hist |-> [firstOk |-> [auto |-> [k |-> "none"], v1b |-> [k |-> "none"], v1s |-> [k |-> "none"], v1fh |-> [k |-> "none"], v1fa |-> [k |-> "none"], v2 |-> [k |-> "none"]], notInc |-> [auto |-> {}, v1b |-> {}, v1s |-> {}, v1fh |-> {}, v1fa |-> {}, v2 |-> {1, 2}], seen |-> {0, 1, 2}, prevV2 |-> [k |-> "err", e |-> "Prefix", inc |-> FALSE, cmp |-> TRUE, a |-> 0, b |-> 0], prevLen |-> 2],hprev |-> [firstOk |-> [auto |-> [k |-> "none"], v1b |-> [k |-> "none"], v1s |-> [k |-> "none"], v1fh |-> [k |-> "none"], v1fa |-> [k |-> "none"], v2 |-> [k |-> "none"]], notInc |-> [auto |-> {}, v1b |-> {}, v1s |-> {}, v1fh |-> {}, v1fa |-> {}, v2 |-> {1}], seen |-> {0, 1}, prevV2 |-> [k |-> "err", e |-> "Prefix", inc |-> FALSE, cmp |-> TRUE, a |-> 0, b |-> 0], prevLen |-> 1],verdict |-> [auto |-> [tag |-> "V1", k |-> "err", r |-> [k |-> "err", e |-> "Partial", w |-> "Parse", inc |-> TRUE, cmp |-> FALSE, dbg |-> "Partial"], inc |-> TRUE, cmp |-> FALSE], v1b |-> [k |-> "err", e |-> "Partial", w |-> "Parse", inc |-> TRUE, cmp |-> FALSE, dbg |-> "Partial"], v1s |-> [k |-> "err", e |-> "Partial", w |-> "-", inc |-> TRUE, cmp |-> FALSE, dbg |-> "Partial"], v1fh |-> [k |-> "err", e |-> "Partial", w |-> "-", inc |-> TRUE, cmp |-> FALSE, dbg |-> "Partial"], v1fa |-> [k |-> "err", e |-> "Partial", w |-> "-", inc |-> TRUE, cmp |-> FALSE, dbg |-> "Partial"], v2 |-> [k |-> "err", e |-> "Prefix", inc |-> FALSE, cmp |-> TRUE, a |-> 0, b |-> 0]],tag |-> [base |-> <<80, 82, 79, 88, 89, 32, 85, 78, 75, 78, 79, 87, 78, 13, 10>>, elem |-> "proto", g |-> "c12v1", repl |-> <<>>],full |-> <<80, 82, 79, 88, 89, 32, 13, 10>>]),
    ([buf |-> <<80, 82, 79>>,hist |-> [firstOk |-> [auto |-> [k |-> "none"], v1b |-> [k |-> "none"], v1s |-> [k |-> "none"], v1fh |-> [k |-> "none"], v1fa |-> [k |-> "none"], v2 |-> [k |-> "none"]], notInc |-> [auto |-> {}, v1b |-> {}, v1s |-> {}, v1fh |-> {}, v1fa |-> {}, v2 |-> {1, 2, 3}], seen |-> {0, 1, 2, 3}, prevV2 |-> [k |-> "err", e |-> "Prefix", inc |-> FALSE, cmp |-> TRUE, a |-> 0, b |-> 0], prevLen |-> 3],hprev |-> [firstOk |-> [auto |-> [k |-> "none"], v1b |-> [k |-> "none"], v1s |-> [k |-> "none"], v1fh |-> [k |-> "none"], v1fa |-> [k |-> "none"], v2 |-> [k |-> "none"]], notInc |-> [auto |-> {}, v1b |-> {}, v1s |-> {}, v1fh |-> {}, v1fa |-> {}, v2 |-> {1, 2}], seen |-> {0, 1, 2}, prevV2 |-> [k |-> "err", e |-> "Prefix", inc |-> FALSE, cmp |-> TRUE, a |-> 0, b |-> 0], prevLen |-> 2],verdict |-> [auto |-> [tag |-> "V1", k |-> "err", r |-> [k |-> "err", e |-> "Partial", w |-> "Parse", inc |-> TRUE, cmp |-> FALSE, dbg |-> "Partial"], inc |-> TRUE, cmp |-> FALSE], v1b |-> [k |-> "err", e |-> "Partial", w |-> "Parse", inc |-> TRUE, cmp |-> FALSE, dbg |-> "Partial"], v1s |-> [k |-> "err", e |-> "Partial", w |-> "-", inc |-> TRUE, cmp |-> FALSE, dbg |-> "Partial"], v1fh |-> [k |-> "err", e |-> "Partial", w |-> "-", inc |-> TRUE, cmp |-> FALSE, dbg |-> "Partial"], v1fa |-> [k |-> "err", e |-> "Partial", w |-> "-", inc |-> TRUE, cmp |-> FALSE, dbg |-> "Partial"], v2 |-> [k |-> "err", e |-> "Prefix", inc |-> FALSE, cmp |-> TRUE, a |-> 0, b |-> 0]],tag |-> [base |-> <<80, 82, 79, 88, 89, 32, 85, 78, 75, 78, 79, 87, 78, 13, 10>>, elem |-> "proto", g |-> "c12v1", repl |-> <<>>],full |-> <<80, 82, 79, 88, 89, 32, 13, 10>>]),
    ([buf |-> <<80, 82, 79, 88>>,hist |-> [firstOk |-> [auto |-> [k |-> "none"], v1b |-> [k |-> "none"], v1s |-> [k |-> "none"], v1fh |-> [k |-> "none"], v1fa |-> [k |-> "none"], v2 |-> [k |-> "none"]], notInc |-> [auto |-> {}, v1b |-> {}, v1s |-> {}, v1fh |-> {}, v1fa |-> {}, v2 |-> {1, 2, 3, 4}], seen |-> {0, 1, 2, 3, 4}, prevV2 |-> [k |-> "err", e |-> "Prefix", inc |-> FALSE, cmp |-> TRUE, a |-> 0, b |-> 0], prevLen |-> 4],hprev |-> [firstOk |-> [auto |-> [k |-> "none"], v1b |-> [k |-> "none"], v1s |-> [k |-> "none"], v1fh |-> [k |-> "none"], v1fa |-> [k |-> "none"], v2 |-> [k |-> "none"]], notInc |-> [auto |-> {}, v1b |-> {}, v1s |-> {}, v1fh |-> {}, v1fa |-> {}, v2 |-> {1, 2, 3}], seen |-> {0, 1, 2, 3}, prevV2 |-> [k |-> "err", e |-> "Prefix", inc |-> FALSE, cmp |-> TRUE, a |-> 0, b |-> 0], prevLen |-> 3],verdict |-> [auto |-> [tag |-> "V1", k |-> "err", r |-> [k |-> "err", e |-> "Partial", w |-> "Parse", inc |-> TRUE, cmp |-> FALSE, dbg |-> "Partial"], inc |-> TRUE, cmp |-> FALSE], v1b |-> [k |-> "err", e |-> "Partial", w |-> "Parse", inc |-> TRUE, cmp |-> FALSE, dbg |-> "Partial"], v1s |-> [k |-> "err", e |-> "Partial", w |-> "-", inc |-> TRUE, cmp |-> FALSE, dbg |-> "Partial"], v1fh |-> [k |-> "err", e |-> "Partial", w |-> "-", inc |-> TRUE, cmp |-> FALSE, dbg |-> "Partial"], v1fa |-> [k |-> "err", e |-> "Partial", w |-> "-", inc |-> TRUE, cmp |-> FALSE, dbg |-> "Partial"], v2 |-> [k |-> "err", e |-> "Prefix", inc |-> FALSE, cmp |-> TRUE, a |-> 0, b |-> 0]],tag |-> [base |-> <<80, 82, 79, 88, 89, 32, 85, 78, 75, 78, 79, 87, 78, 13, 10>>, elem |-> "proto", g |-> "c12v1", repl |-> <<>>],full |-> <<80, 82, 79, 88, 89, 32, 13, 10>>]),
    ([buf |-> <<80, 82, 79, 88, 89>>,hist |-> [firstOk |-> [auto |-> [k |-> "none"], v1b |-> [k |-> "none"], v1s |-> [k |-> "none"], v1fh |-> [k |-> "none"], v1fa |-> [k |-> "none"], v2 |-> [k |-> "none"]], notInc |-> [auto |-> {}, v1b |-> {}, v1s |-> {}, v1fh |-> {}, v1fa |-> {}, v2 |-> {1, 2, 3, 4, 5}], seen |-> {0, 1, 2, 3, 4, 5}, prevV2 |-> [k |-> "err", e |-> "Prefix", inc |-> FALSE, cmp |-> TRUE, a |-> 0, b |-> 0], prevLen |-> 5],hprev |-> [firstOk |-> [auto |-> [k |-> "none"], v1b |-> [k |-> "none"], v1s |-> [k |-> "none"], v1fh |-> [k |-> "none"], v1fa |-> [k |-> "none"], v2 |-> [k |-> "none"]], notInc |-> [auto |-> {}, v1b |-> {}, v1s |-> {}, v1fh |-> {}, v1fa |-> {}, v2 |-> {1, 2, 3, 4}], seen |-> {0, 1, 2, 3, 4}, prevV2 |-> [k |-> "err", e |-> "Prefix", inc |-> FALSE, cmp |-> TRUE, a |-> 0, b |-> 0], prevLen |-> 4],verdict |-> [auto |-> [tag |-> "V1", k |-> "err", r |-> [k |-> "err", e |-> "Partial", w |-> "Parse", inc |-> TRUE, cmp |-> FALSE, dbg |-> "Partial"], inc |-> TRUE, cmp |-> FALSE], v1b |-> [k |-> "err", e |-> "Partial", w |-> "Parse", inc |-> TRUE, cmp |-> FALSE, dbg |-> "Partial"], v1s |-> [k |-> "err", e |-> "Partial", w |-> "-", inc |-> TRUE, cmp |-> FALSE, dbg |-> "Partial"], v1fh |-> [k |-> "err", e |-> "Partial", w |-> "-", inc |-> TRUE, cmp |-> FALSE, dbg |-> "Partial"], v1fa |-> [k |-> "err", e |-> "Partial", w |-> "-", inc |-> TRUE, cmp |-> FALSE, dbg |-> "Partial"], v2 |-> [k |-> "err", e |-> "Prefix", inc |-> FALSE, cmp |-> TRUE, a |-> 0, b |-> 0]],tag |-> [base |-> <<80, 82, 79, 88, 89, 32, 85, 78, 75, 78, 79, 87, 78, 13, 10>>, elem |-> "proto", g |-> "c12v1", repl |-> <<>>],full |-> <<80, 82, 79, 88, 89, 32, 13, 10>>]),
    ([buf |-> <<80, 82, 79, 88, 89, 32>>,hist |-> [firstOk |-> [auto |-> [k |-> "none"], v1b |-> [k |-> "none"], v1s |-> [k |-> "none"], v1fh |-> [k |-> "none"], v1fa |-> [k |-> "none"], v2 |-> [k |-> "none"]], notInc |-> [auto |-> {}, v1b |-> {}, v1s |-> {}, v1fh |-> {}, v1fa |-> {}, v2 |-> {1, 2, 3, 4, 5, 6}], seen |-> {0, 1, 2, 3, 4, 5, 6}, prevV2 |-> [k |-> "err", e |-> "Prefix", inc |-> FALSE, cmp |-> TRUE, a |-> 0, b |-> 0], prevLen |-> 6],hprev |-> [firstOk |-> [auto |-> [k |-> "none"], v1b |-> [k |-> "none"], v1s |-> [k |-> "none"], v1fh |-> [k |-> "none"], v1fa |-> [k |-> "none"], v2 |-> [k |-> "none"]], notInc |-> [auto |-> {}, v1b |-> {}, v1s |-> {}, v1fh |-> {}, v1fa |-> {}, v2 |-> {1, 2, 3, 4, 5}], seen |-> {0, 1, 2, 3, 4, 5}, prevV2 |-> [k |-> "err", e |-> "Prefix", inc |-> FALSE, cmp |-> TRUE, a |-> 0, b |-> 0], prevLen |-> 5],verdict |-> [auto |-> [tag |-> "V1", k |-> "err", r |-> [k |-> "err", e |-> "MissingProtocol", w |-> "Parse", inc |-> TRUE, cmp |-> FALSE, dbg |-> "MissingProtocol"], inc |-> TRUE, cmp |-> FALSE], v1b |-> [k |-> "err", e |-> "MissingProtocol", w |-> "Parse", inc |-> TRUE, cmp |-> FALSE, dbg |-> "MissingProtocol"], v1s |-> [k |-> "err", e |-> "MissingProtocol", w |-> "-", inc |-> TRUE, cmp |-> FALSE, dbg |-> "MissingProtocol"], v1fh |-> [k |-> "err", e |-> "MissingProtocol", w |-> "-", inc |-> TRUE, cmp |-> FALSE, dbg |-> "MissingProtocol"], v1fa |-> [k |-> "err", e |-> "MissingProtocol", w |-> "-", inc |-> TRUE, cmp |-> FALSE, dbg |-> "MissingProtocol"], v2 |-> [k |-> "err", e |-> "Prefix", inc |-> FALSE, cmp |-> TRUE, a |-> 0, b |-> 0]],tag |-> [base |-> <<80, 82, 79, 88, 89, 32, 85, 78, 75, 78, 79, 87, 78, 13, 10>>, elem |-> "proto", g |-> "c12v1", repl |-> <<>>],full |-> <<80, 82, 79, 88, 89, 32, 13, 10>>]),
    ([buf |-> <<80, 82, 79, 88, 89, 32, 13>>,hist |-> [firstOk |-> [auto |-> [k |-> "none"], v1b |-> [k |-> "none"], v1s |-> [k |-> "none"], v1fh |-> [k |-> "none"], v1fa |-> [k |-> "none"], v2 |-> [k |-> "none"]], notInc |-> [auto |-> {7}, v1b |-> {7}, v1s |-> {7}, v1fh |-> {7}, v1fa |-> {7}, v2 |-> {1, 2, 3, 4, 5, 6, 7}], seen |-> {0, 1, 2, 3, 4, 5, 6, 7}, prevV2 |-> [k |-> "err", e |-> "Prefix", inc |-> FALSE, cmp |-> TRUE, a |-> 0, b |-> 0], prevLen |-> 7],hprev |-> [firstOk |-> [auto |-> [k |-> "none"], v1b |-> [k |-> "none"], v1s |-> [k |-> "none"], v1fh |-> [k |-> "none"], v1fa |-> [k |-> "none"], v2 |-> [k |-> "none"]], notInc |-> [auto |-> {}, v1b |-> {}, v1s |-> {}, v1fh |-> {}, v1fa |-> {}, v2 |-> {1, 2, 3, 4, 5, 6}], seen |-> {0, 1, 2, 3, 4, 5, 6}, prevV2 |-> [k |-> "err", e |-> "Prefix", inc |-> FALSE, cmp |-> TRUE, a |-> 0, b |-> 0], prevLen |-> 6],verdict |-> [auto |-> [tag |-> "V1", k |-> "err", r |-> [k |-> "err", e |-> "InvalidProtocol", w |-> "Parse", inc |-> FALSE, cmp |-> TRUE, dbg |-> "InvalidProtocol"], inc |-> FALSE, cmp |-> TRUE], v1b |-> [k |-> "err", e |-> "InvalidProtocol", w |-> "Parse", inc |-> FALSE, cmp |-> TRUE, dbg |-> "InvalidProtocol"], v1s |-> [k |-> "err", e |-> "InvalidProtocol", w |-> "-", inc |-> FALSE, cmp |-> TRUE, dbg |-> "InvalidProtocol"], v1fh |-> [k |-> "err", e |-> "InvalidProtocol", w |-> "-", inc |-> FALSE, cmp |-> TRUE, dbg |-> "InvalidProtocol"], v1fa |-> [k |-> "err", e |-> "InvalidProtocol", w |-> "-", inc |-> FALSE, cmp |-> TRUE, dbg |-> "InvalidProtocol"], v2 |-> [k |-> "err", e |-> "Prefix", inc |-> FALSE, cmp |-> TRUE, a |-> 0, b |-> 0]],tag |-> [base |-> <<80, 82, 79, 88, 89, 32, 85, 78, 75, 78, 79, 87, 78, 13, 10>>, elem |-> "proto", g |-> "c12v1", repl |-> <<>>],full |-> <<80, 82, 79, 88, 89, 32, 13, 10>>]),
    ([buf |-> <<80, 82, 79, 88, 89, 32, 13, 10>>,hist |-> [firstOk |-> [auto |-> [k |-> "none"], v1b |-> [k |-> "none"], v1s |-> [k |-> "none"], v1fh |-> [k |-> "none"], v1fa |-> [k |-> "none"], v2 |-> [k |-> "none"]], notInc |-> [auto |-> {7, 8}, v1b |-> {7, 8}, v1s |-> {7, 8}, v1fh |-> {7, 8}, v1fa |-> {7, 8}, v2 |-> {1, 2, 3, 4, 5, 6, 7, 8}], seen |-> {0, 1, 2, 3, 4, 5, 6, 7, 8}, prevV2 |-> [k |-> "err", e |-> "Prefix", inc |-> FALSE, cmp |-> TRUE, a |-> 0, b |-> 0], prevLen |-> 8],hprev |-> [firstOk |-> [auto |-> [k |-> "none"], v1b |-> [k |-> "none"], v1s |-> [k |-> "none"], v1fh |-> [k |-> "none"], v1fa |-> [k |-> "none"], v2 |-> [k |-> "none"]], notInc |-> [auto |-> {7}, v1b |-> {7}, v1s |-> {7}, v1fh |-> {7}, v1fa |-> {7}, v2 |-> {1, 2, 3, 4, 5, 6, 7}], seen |-> {0, 1, 2, 3, 4, 5, 6, 7}, prevV2 |-> [k |-> "err", e |-> "Prefix", inc |-> FALSE, cmp |-> TRUE, a |-> 0, b |-> 0], prevLen |-> 7],verdict |-> [auto |-> [tag |-> "V1", k |-> "err", r |-> [k |-> "err", e |-> "InvalidProtocol", w |-> "Parse", inc |-> FALSE, cmp |-> TRUE, dbg |-> "InvalidProtocol"], inc |-> FALSE, cmp |-> TRUE], v1b |-> [k |-> "err", e |-> "InvalidProtocol", w |-> "Parse", inc |-> FALSE, cmp |-> TRUE, dbg |-> "InvalidProtocol"], v1s |-> [k |-> "err", e |-> "InvalidProtocol", w |-> "-", inc |-> FALSE, cmp |-> TRUE, dbg |-> "InvalidProtocol"], v1fh |-> [k |-> "err", e |-> "InvalidProtocol", w |-> "-", inc |-> FALSE, cmp |-> TRUE, dbg |-> "InvalidProtocol"], v1fa |-> [k |-> "err", e |-> "InvalidProtocol", w |-> "-", inc |-> FALSE, cmp |-> TRUE, dbg |-> "InvalidProtocol"], v2 |-> [k |-> "err", e |-> "Prefix", inc |-> FALSE, cmp |-> TRUE, a |-> 0, b |-> 0]],tag |-> [base |-> <<80, 82, 79, 88, 89, 32, 85, 78, 75, 78, 79, 87, 78, 13, 10>>, elem |-> "proto", g |-> "c12v1", repl |-> <<>>],full |-> <<80, 82, 79, 88, 89, 32, 13, 10>>])
    >>
----


=============================================================================

---- CONFIG Dbg_TTrace_1791137800 ----
CONSTANTS
    MaxSubst = 1
    Level = 1

INVARIANT
    _inv

CHECK_DEADLOCK
    \* CHECK_DEADLOCK off because of PROPERTY or INVARIANT above.
    FALSE

INIT
    _init

NEXT
    _next

CONSTANT
    _TETrace <- _trace

ALIAS
    _expression
=============================================================================
\* Generated on Sun Oct 04 18:16:43 UTC 2026