-------------------------------- MODULE Tlv --------------------------------
(***************************************************************************)
(* The TLV cursor of src/v2/model.rs (`TypeLengthValues`) as a state       *)
(* machine.  The declarative walk it must agree with is in TlvWalk.        *)
(***************************************************************************)
EXTENDS TlvWalk

(***************************************************************************)
(* The cursor.                                                             *)
(***************************************************************************)
VARIABLES section, offset, yielded

vars == << section, offset, yielded >>

Open(sec) == section' = sec /\ offset' = 0 /\ yielded' = << >>

(* what `next()` returns when the cursor stands at `off`, and the offset afterwards *)
ItemAt(off) ==
    LET n == Len(section)
        rem == n - off
    IN  IF off >= n THEN [item |-> NoItem, off |-> off]
        ELSE IF rem < 3 THEN [item |-> LeftoverItem(n), off |-> n]
        ELSE LET t == section[off + 1]
                 len == BE16(section[off + 2], section[off + 3])
             IN  IF rem < 3 + len THEN [item |-> OverrunItem(t, len), off |-> n]
                 ELSE [item |-> OkItem(t, SubSeq(section, off + 4, off + 3 + len)), off |-> off + 3 + len]

NextItem == ItemAt(offset)

Next ==
    LET r == NextItem
    IN  /\ offset' = r.off
        /\ yielded' = Append(yielded, r.item)
        /\ UNCHANGED section

(***************************************************************************)
(* The other operations of `Iterator` on the SAME cursor, as the standard  *)
(* library defines them in terms of `next()`: `nth(n)` discards n items    *)
(* (error items count) and returns the one after them, giving up at the    *)
(* first None; consuming adaptors (`count`, `last`, `fold`, `collect`,     *)
(* `for_each` through `by_ref()`) see every remaining item and leave the   *)
(* cursor exhausted.                                                       *)
(***************************************************************************)
RECURSIVE NthFrom(_, _)
NthFrom(off, n) ==
    LET r == ItemAt(off)
    IN  IF n = 0 \/ r.item = NoItem THEN r ELSE NthFrom(r.off, n - 1)

(* n < 0 stands for an argument beyond any section (usize::MAX) *)
NthArg(n) == IF n < 0 THEN Len(section) + 2 ELSE n

Nth(n) ==
    LET r == NthFrom(offset, NthArg(n))
    IN  /\ offset' = r.off
        /\ yielded' = Append(yielded, r.item)
        /\ UNCHANGED section

RECURSIVE RestFrom(_)
RestFrom(off) ==
    LET r == ItemAt(off)
    IN  IF r.item = NoItem THEN << >> ELSE << r.item >> \o RestFrom(r.off)

Drain ==
    LET rest == RestFrom(offset)
    IN  /\ offset' = IF rest = << >> THEN offset ELSE Len(section)
        /\ yielded' = yielded \o rest \o << NoItem >>
        /\ UNCHANGED section

(* ---- invariants of the cursor (checked by MC_Tlv) ---- *)
Real(items) == SelectSeq(items, LAMBDA x : x.k # "none")

RECURSIVE SumLens(_)
SumLens(items) == IF items = << >> THEN 0 ELSE (IF Head(items).k = "ok" THEN 3 + Len(Head(items).v) ELSE 0) + SumLens(Tail(items))

InRange       == 0 <= offset /\ offset <= Len(section)
PrefixOfWalk  == LET r == Real(yielded) w == Walk(section) IN Len(r) <= Len(w) /\ r = SubSeq(w, 1, Len(r))
StopsForGood  == \A i \in 1..Len(yielded) : yielded[i].k \in {"none", "err"} => \A j \in (i + 1)..Len(yielded) : yielded[j].k = "none"
Tiling        == (\A i \in 1..Len(yielded) : yielded[i].k # "err") => SumLens(yielded) = offset
Bounded       == Len(Walk(section)) <= Len(section) \div 3 + 1
Exhausts      == (yielded # << >> /\ yielded[Len(yielded)].k = "none") => Real(yielded) = Walk(section)
(* wherever next / nth / a consuming adaptor left the cursor, what remains is a suffix of the walk *)
OnTheWalk     == LET w == Walk(section) r == RestFrom(offset) IN Len(r) <= Len(w) /\ r = SubSeq(w, Len(w) - Len(r) + 1, Len(w))

=============================================================================
