-------------------------------- MODULE Tlv --------------------------------
(***************************************************************************)
(* The TLV cursor of src/v2/model.rs (`TypeLengthValues`) as a state       *)
(* machine.  The declarative walk it must agree with is in TlvWalk.        *)
(***************************************************************************)
EXTENDS TlvWalk

(***************************************************************************)
(* The cursor.                                                             *)
(***************************************************************************)
VARIABLES section, offset, yielded

vars == << section, offset, yielded >>

Open(sec) == section' = sec /\ offset' = 0 /\ yielded' = << >>

(* what `next()` returns in the current state, and the offset afterwards *)
NextItem ==
    LET n == Len(section)
        rem == n - offset
    IN  IF offset >= n THEN [item |-> NoItem, off |-> offset]
        ELSE IF rem < 3 THEN [item |-> LeftoverItem(n), off |-> n]
        ELSE LET t == section[offset + 1]
                 len == BE16(section[offset + 2], section[offset + 3])
             IN  IF rem < 3 + len THEN [item |-> OverrunItem(t, len), off |-> n]
                 ELSE [item |-> OkItem(t, SubSeq(section, offset + 4, offset + 3 + len)), off |-> offset + 3 + len]

Next ==
    LET r == NextItem
    IN  /\ offset' = r.off
        /\ yielded' = Append(yielded, r.item)
        /\ UNCHANGED section

(* ---- invariants of the cursor (checked by MC_Tlv) ---- *)
Real(items) == SelectSeq(items, LAMBDA x : x.k # "none")

RECURSIVE SumLens(_)
SumLens(items) == IF items = << >> THEN 0 ELSE (IF Head(items).k = "ok" THEN 3 + Len(Head(items).v) ELSE 0) + SumLens(Tail(items))

InRange       == 0 <= offset /\ offset <= Len(section)
PrefixOfWalk  == LET r == Real(yielded) w == Walk(section) IN Len(r) <= Len(w) /\ r = SubSeq(w, 1, Len(r))
StopsForGood  == \A i \in 1..Len(yielded) : yielded[i].k \in {"none", "err"} => \A j \in (i + 1)..Len(yielded) : yielded[j].k = "none"
Tiling        == (\A i \in 1..Len(yielded) : yielded[i].k # "err") => SumLens(yielded) = offset
Bounded       == Len(Walk(section)) <= Len(section) \div 3 + 1
Exhausts      == (yielded # << >> /\ yielded[Len(yielded)].k = "none") => Real(yielded) = Walk(section)

=============================================================================
